// Simulated cgroup2 file system: real directories and regular files under a mkdtemp root (glob,
// openat and readdir of the real code must see real directories), plus in-memory extended
// attributes and cgroup identities served through interposed libc calls (interpose.cpp).
#pragma once
#include <map>
#include <set>
#include <string>
#include <vector>

namespace verif {

class SimFs {
 public:
  SimFs();
  ~SimFs();
  const std::string& root() const { return root_; }       // cgroup fs root (absolute)
  const std::string& base() const { return base_; }       // scratch dir holding root, proc, ...
  std::string abs(const std::string& rel) const;
  // create a cgroup directory (parents too) with cgroup.controllers so that isCgroupValid holds;
  // every creation gets a fresh identity (generation), also after removal and re-creation
  void mkcg(const std::string& rel);
  void rmcg(const std::string& rel); // recursive
  bool exists(const std::string& rel) const;
  void write(const std::string& rel, const std::string& file, const std::string& content);
  void remove(const std::string& rel, const std::string& file);
  std::string read(const std::string& rel, const std::string& file) const;
  void writeAbs(const std::string& path, const std::string& content);
  // xattrs (in memory, keyed by absolute path)
  void setXattr(const std::string& rel, const std::string& name, const std::string& val);
  void clearXattr(const std::string& rel, const std::string& name);
  long long gen(const std::string& rel) const; // identity reported by fstat().st_ino
  std::vector<std::string> listCgroups() const; // relative paths, sorted

 private:
  std::string base_, root_;
};

// in-memory xattr store shared with the interposers
std::map<std::string, std::map<std::string, std::string>>& xattrStore();
// identity store: absolute path -> generation
std::map<std::string, long long>& genStore();
long long nextGen();

} // namespace verif
