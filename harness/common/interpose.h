// libc-boundary interposition (symbols defined in the driver executable win over libc for calls
// from the real oomd objects).  Each interposer consults the simulated world and, when tracing
// is on, logs the call.
#pragma once
#include <functional>
#include <string>
#include <vector>

namespace verif {

std::string fdPath(int fd); // absolute path an fd refers to ("" if unknown)

struct KillOutcome { int rc; int err; }; // rc 0 ok, -1 with errno err
struct Interpose {
  // kill(2): decide the outcome; default ESRCH
  std::function<KillOutcome(int pid, int sig)> onKill;
  // pidfd_open / process_mrelease
  std::function<int(int pid)> onPidfdOpen;      // return >=0 "fd" or -errno
  std::function<int(int pidfd)> onMrelease;     // 0 or -errno
  // write(2) on a tracked control file: path (absolute), data. Return true to swallow the write
  // (the file keeps its content); false lets it through.
  std::function<bool(const std::string& path, const std::string& data)> onCtlWrite;
  // called for every open/openat/fopen64/opendir of a path under the sim base; may return an
  // errno (>0) to fail the call, 0 to let it proceed, -1 to serve an empty file instead
  std::function<int(const std::string& path, int flags)> onOpen;
  // after a successful open of a path under base (absolute path, open flags)
  std::function<void(const std::string& path, int flags)> onOpened;
  // every write(2) on an fd > 2 whose path is under base or equals kmsgPath
  std::function<void(const std::string& path, const std::string& data)> onWrite;
  // same selection of fds; return an errno (>0) to make the write(2) fail instead of being performed
  std::function<int(const std::string& path, const std::string& data)> onWriteErr;
  // every directory entry about to be returned by readdir (directory path, entry name)
  std::function<void(const std::string& dir, const char* name)> onReaddir;
  std::string kmsgPath;
  bool openIsRelative{false}; // set around onOpen: the open in progress names its file relative to a directory fd
  bool clearDType{false}; // readdir reports DT_UNKNOWN (file systems without d_type)
  bool logXattr{false};
  bool active{false}; // master switch; off = plain pass-through
  std::string base;   // paths under this prefix are "ours"
  std::string procRedirect; // if set, /proc/<x> opens are redirected to <procRedirect>/<x>
};
Interpose& ip();

} // namespace verif

// called by the setxattr interposer after a successful store (absolute path, name, value)
extern std::function<void(const std::string&, const std::string&, const std::string&)> g_onSetXattr;
