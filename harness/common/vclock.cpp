#include "vclock.h"
#include <sys/syscall.h>
#include <time.h>
#include <unistd.h>
#include <atomic>
#include <cerrno>

namespace verif {
static std::atomic<bool> g_on{false};
static std::atomic<int64_t> g_ns{0};
static std::atomic<int64_t> g_slept{0};
void vclockEnable(bool on) { g_on = on; }
void vclockSet(int64_t ms) { g_ns = ms * 1000000LL; }
void vclockAdvance(int64_t ms) { g_ns += ms * 1000000LL; }
int64_t vclockNowMs() { return g_ns / 1000000LL; }
int64_t vclockSleptMs() { return g_slept; }
} // namespace verif

extern "C" {
int clock_gettime(clockid_t clk, struct timespec* ts) {
  if (verif::g_on && (clk == CLOCK_MONOTONIC || clk == CLOCK_MONOTONIC_RAW ||
                      clk == CLOCK_MONOTONIC_COARSE || clk == CLOCK_BOOTTIME)) {
    int64_t ns = verif::g_ns;
    ts->tv_sec = ns / 1000000000LL;
    ts->tv_nsec = ns % 1000000000LL;
    return 0;
  }
  return (int)syscall(SYS_clock_gettime, clk, ts);
}
int nanosleep(const struct timespec* req, struct timespec* rem) {
  if (verif::g_on) {
    int64_t ns = req->tv_sec * 1000000000LL + req->tv_nsec;
    verif::g_ns += ns;
    verif::g_slept += ns / 1000000LL;
    if (rem) rem->tv_sec = rem->tv_nsec = 0;
    return 0;
  }
  return (int)syscall(SYS_nanosleep, req, rem);
}
int clock_nanosleep(clockid_t clk, int flags, const struct timespec* req, struct timespec* rem) {
  if (verif::g_on) {
    int64_t ns = req->tv_sec * 1000000000LL + req->tv_nsec;
    if (flags & TIMER_ABSTIME) {
      ns -= verif::g_ns;
      if (ns < 0) ns = 0;
    }
    verif::g_ns += ns;
    verif::g_slept += ns / 1000000LL;
    return 0;
  }
  long r = syscall(SYS_clock_nanosleep, clk, flags, req, rem);
  return r == 0 ? 0 : errno;
}
}
