// Event log shared by all conformance drivers: one ndjson object per observable event.
// The vocabulary is DESIGN.md appendix A; the consumers are the *_Trace.tla specifications.
#pragma once
#include <cstdint>
#include <cstdio>
#include <string>
#include <vector>

namespace verif {

// Minimal JSON object builder (flat or nested through raw()).
class J {
 public:
  J() : s_("{") {}
  J& str(const char* k, const std::string& v);
  J& num(const char* k, long long v);
  J& boolean(const char* k, bool v);
  J& raw(const char* k, const std::string& json); // already-encoded value
  std::string done() const { return s_ + "}"; }
  static std::string quote(const std::string& v);
  static std::string arr(const std::vector<std::string>& encoded);
  static std::string strArr(const std::vector<std::string>& plain);
  static std::string numArr(const std::vector<long long>& v);

 private:
  void key(const char* k);
  std::string s_;
};

// Open the trace file (path from env VERIF_TRACE or argument). Thread-safe emit.
void evOpen(const std::string& path);
void evEmit(const J& j);
void evEmitRaw(const std::string& line);
void evFlush();
long long evCount();
// Splits "a/b/c" into ["a","b","c"] (JSON), dropping empty components.
std::string pathJson(const std::string& rel);
// "ab/c" -> [["a","b"],["c"]]: every component as a list of one-character strings (for specs that
// match patterns character by character)
std::string pathCharsJson(const std::string& rel);

// Install std::terminate / fatal-signal handlers that append {"e":"Abort",...} and _exit(0)
// so that a crashed execution yields a trace that no specification accepts.
void installAbortHandlers();

} // namespace verif
