#include "interpose.h"
#include <dirent.h>
#include <dlfcn.h>
#include <fcntl.h>
#include <signal.h>
#include <stdarg.h>
#include <sys/stat.h>
#include <sys/syscall.h>
#include <sys/xattr.h>
#include <unistd.h>
#include <cerrno>
#include <cstdio>
#include <cstring>
#include "evlog.h"
#include "simfs.h"

#ifndef __NR_process_mrelease
#define __NR_process_mrelease 448
#endif

namespace verif {
Interpose& ip() {
  static Interpose i;
  return i;
}
std::string fdPath(int fd) {
  char link[64], buf[4096];
  snprintf(link, sizeof link, "/proc/self/fd/%d", fd);
  ssize_t n = syscall(SYS_readlink, link, buf, sizeof buf - 1);
  if (n <= 0) return "";
  buf[n] = 0;
  std::string s(buf);
  auto pos = s.find(" (deleted)");
  if (pos != std::string::npos) s = s.substr(0, pos);
  return s;
}
static bool ours(const std::string& p) {
  auto& b = ip().base;
  return !b.empty() && p.compare(0, b.size(), b) == 0;
}
static std::string redirect(const char* path) {
  auto& i = ip();
  if (i.active && !i.procRedirect.empty() && path && !strncmp(path, "/proc/", 6) &&
      strncmp(path, "/proc/self", 10)) {
    return i.procRedirect + "/" + (path + 6);
  }
  return path ? path : "";
}
template <class F>
static F real(const char* name) {
  static_assert(sizeof(F) == sizeof(void*));
  void* p = dlsym(RTLD_NEXT, name);
  F f;
  memcpy(&f, &p, sizeof p);
  return f;
}
} // namespace verif

using namespace verif;

extern "C" {

// ---------------------------------------------------------------- xattrs
ssize_t fgetxattr(int fd, const char* name, void* value, size_t size) {
  std::string p = fdPath(fd);
  auto& st = xattrStore();
  auto it = st.find(p);
  if (it == st.end() || !it->second.count(name)) { errno = ENODATA; return -1; }
  const std::string& v = it->second[name];
  if (size == 0) return (ssize_t)v.size();
  if (size < v.size()) { errno = ERANGE; return -1; }
  memcpy(value, v.data(), v.size());
  return (ssize_t)v.size();
}
ssize_t getxattr(const char* path, const char* name, void* value, size_t size) {
  auto& st = xattrStore();
  auto it = st.find(path);
  ssize_t ret;
  std::string got;
  if (it == st.end() || !it->second.count(name)) { errno = ENODATA; ret = -1; }
  else {
    const std::string& v = it->second[name];
    got = v;
    if (size == 0) ret = (ssize_t)v.size();
    else if (size < v.size()) { errno = ERANGE; ret = -1; }
    else { memcpy(value, v.data(), v.size()); ret = (ssize_t)v.size(); }
  }
  return ret;
}
int setxattr(const char* path, const char* name, const void* value, size_t size, int) {
  struct stat sb;
  if (syscall(SYS_newfstatat, AT_FDCWD, path, &sb, 0) != 0) { errno = ENOENT; return -1; }
  std::string v((const char*)value, size);
  xattrStore()[path][name] = v;
  if (ip().logXattr) {
    evEmit(J().str("e", "XattrSet").str("path", path).str("name", name).str("val", v));
  }
  return 0;
}

// ---------------------------------------------------------------- identity
int fstat(int fd, struct stat* buf) {
  long r = syscall(SYS_newfstatat, fd, "", buf, AT_EMPTY_PATH);
  if (r != 0) return -1;
  if (ip().active && S_ISDIR(buf->st_mode)) {
    auto& g = genStore();
    auto it = g.find(fdPath(fd));
    if (it != g.end()) buf->st_ino = (ino_t)it->second;
  }
  return 0;
}

// ---------------------------------------------------------------- signals & reaping
int kill(pid_t pid, int sig) {
  auto& i = ip();
  if (!i.active || !i.onKill) return (int)syscall(SYS_kill, pid, sig);
  KillOutcome o = i.onKill(pid, sig);
  if (o.rc != 0) errno = o.err;
  return o.rc;
}
long syscall(long number, ...) __THROW;
}

// syscall() is variadic; forward generically with 6 register arguments.
extern "C" long syscall(long number, ...) __THROW {
  va_list ap;
  va_start(ap, number);
  long a = va_arg(ap, long), b = va_arg(ap, long), c = va_arg(ap, long), d = va_arg(ap, long),
       e = va_arg(ap, long), f = va_arg(ap, long);
  va_end(ap);
  auto& i = ip();
  if (i.active && number == SYS_pidfd_open && i.onPidfdOpen) {
    int r = i.onPidfdOpen((int)a);
    if (r < 0) { errno = -r; return -1; }
    return r;
  }
  if (i.active && number == __NR_process_mrelease && i.onMrelease) {
    int r = i.onMrelease((int)a);
    if (r < 0) { errno = -r; return -1; }
    return r;
  }
  long ret;
  register long r10 __asm__("r10") = d;
  register long r8 __asm__("r8") = e;
  register long r9 __asm__("r9") = f;
  __asm__ volatile("syscall"
                   : "=a"(ret)
                   : "a"(number), "D"(a), "S"(b), "d"(c), "r"(r10), "r"(r8), "r"(r9)
                   : "rcx", "r11", "memory");
  if (ret < 0 && ret > -4096) { errno = (int)-ret; return -1; }
  return ret;
}
