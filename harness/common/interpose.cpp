#include "interpose.h"
#include <dirent.h>
#include <dlfcn.h>
#include <fcntl.h>
#include <signal.h>
#include <stdarg.h>
#include <sys/stat.h>
#include <sys/syscall.h>
#include <sys/xattr.h>
#include <unistd.h>
#include <cerrno>
#include <cstdio>
#include <cstring>
#include "evlog.h"
#include "simfs.h"

#ifndef __NR_process_mrelease
#define __NR_process_mrelease 448
#endif

namespace verif {
Interpose& ip() {
  static Interpose i;
  return i;
}
std::string fdPath(int fd) {
  char link[64], buf[4096];
  snprintf(link, sizeof link, "/proc/self/fd/%d", fd);
  ssize_t n = syscall(SYS_readlink, link, buf, sizeof buf - 1);
  if (n <= 0) return "";
  buf[n] = 0;
  std::string s(buf);
  auto pos = s.find(" (deleted)");
  if (pos != std::string::npos) s = s.substr(0, pos);
  return s;
}
static bool ours(const std::string& p) {
  auto& b = ip().base;
  return !b.empty() && p.compare(0, b.size(), b) == 0;
}
static std::string redirect(const char* path) {
  auto& i = ip();
  if (i.active && !i.procRedirect.empty() && path && !strncmp(path, "/proc/", 6) &&
      strncmp(path, "/proc/self", 10)) {
    return i.procRedirect + "/" + (path + 6);
  }
  return path ? path : "";
}
template <class F>
static F real(const char* name) {
  static_assert(sizeof(F) == sizeof(void*));
  void* p = dlsym(RTLD_NEXT, name);
  F f;
  memcpy(&f, &p, sizeof p);
  return f;
}
} // namespace verif

using namespace verif;
std::function<void(const std::string&, const std::string&, const std::string&)> g_onSetXattr;

extern "C" {

// ---------------------------------------------------------------- xattrs
ssize_t fgetxattr(int fd, const char* name, void* value, size_t size) {
  std::string p = fdPath(fd);
  auto& st = xattrStore();
  auto it = st.find(p);
  if (it == st.end() || !it->second.count(name)) { errno = ENODATA; return -1; }
  const std::string& v = it->second[name];
  if (size == 0) return (ssize_t)v.size();
  if (size < v.size()) { errno = ERANGE; return -1; }
  memcpy(value, v.data(), v.size());
  return (ssize_t)v.size();
}
ssize_t getxattr(const char* path, const char* name, void* value, size_t size) {
  auto& st = xattrStore();
  auto it = st.find(path);
  ssize_t ret;
  std::string got;
  if (it == st.end() || !it->second.count(name)) { errno = ENODATA; ret = -1; }
  else {
    const std::string& v = it->second[name];
    got = v;
    if (size == 0) ret = (ssize_t)v.size();
    else if (size < v.size()) { errno = ERANGE; ret = -1; }
    else { memcpy(value, v.data(), v.size()); ret = (ssize_t)v.size(); }
  }
  return ret;
}
int setxattr(const char* path, const char* name, const void* value, size_t size, int) {
  struct stat sb;
  if (syscall(SYS_newfstatat, AT_FDCWD, path, &sb, 0) != 0) { errno = ENOENT; return -1; }
  std::string v((const char*)value, size);
  xattrStore()[path][name] = v;
  if (g_onSetXattr) g_onSetXattr(path, name, v);
  return 0;
}

// ---------------------------------------------------------------- identity
static int doFstat(int fd, struct stat* buf) {
  long r = syscall(SYS_newfstatat, fd, "", buf, AT_EMPTY_PATH);
  if (r != 0) return -1;
  if (ip().active && S_ISDIR(buf->st_mode)) {
    auto& g = genStore();
    auto it = g.find(fdPath(fd));
    if (it != g.end()) buf->st_ino = (ino_t)it->second;
  }
  return 0;
}
int fstat(int fd, struct stat* buf) { return doFstat(fd, buf); }
int fstat64(int fd, struct stat64* buf) { return doFstat(fd, (struct stat*)buf); }

// ---------------------------------------------------------------- open family / write
static std::string fullPath(int dirfd, const char* path) {
  if (!path) return "";
  if (path[0] == '/') return path;
  if (dirfd == AT_FDCWD) return path;
  return fdPath(dirfd) + "/" + path;
}
static int doOpenat(int dirfd, const char* path, int flags, mode_t mode) {
  auto& i = ip();
  std::string redir;
  if (i.active) {
    redir = redirect(path);
    if (redir != (path ? path : "")) { path = redir.c_str(); dirfd = AT_FDCWD; }
    std::string full = fullPath(dirfd, path);
    if (ours(full)) {
      if (i.onOpen) {
        i.openIsRelative = dirfd != AT_FDCWD && path && path[0] != '/';
        int e = i.onOpen(full, flags);
        i.openIsRelative = false;
        if (e > 0) { errno = e; return -1; }
        if (e == -1) return (int)syscall(SYS_openat, AT_FDCWD, "/dev/null", flags & ~(O_DIRECTORY | O_CREAT | O_TRUNC), 0); // empty file
        if (e == -2) return (int)syscall(SYS_openat, AT_FDCWD, "/", O_RDONLY, 0); // opens, but every read fails (EISDIR)
      }
      int fd = (int)syscall(SYS_openat, dirfd, path, flags, mode);
      if (fd >= 0 && i.onOpened) i.onOpened(full, flags);
      return fd;
    }
  }
  return (int)syscall(SYS_openat, dirfd, path, flags, mode);
}
int openat(int dirfd, const char* path, int flags, ...) {
  mode_t mode = 0;
  if (flags & (O_CREAT | O_TMPFILE)) { va_list ap; va_start(ap, flags); mode = va_arg(ap, mode_t); va_end(ap); }
  return doOpenat(dirfd, path, flags, mode);
}
int openat64(int dirfd, const char* path, int flags, ...) {
  mode_t mode = 0;
  if (flags & (O_CREAT | O_TMPFILE)) { va_list ap; va_start(ap, flags); mode = va_arg(ap, mode_t); va_end(ap); }
  return doOpenat(dirfd, path, flags, mode);
}
int open(const char* path, int flags, ...) {
  mode_t mode = 0;
  if (flags & (O_CREAT | O_TMPFILE)) { va_list ap; va_start(ap, flags); mode = va_arg(ap, mode_t); va_end(ap); }
  return doOpenat(AT_FDCWD, path, flags, mode);
}
int open64(const char* path, int flags, ...) {
  mode_t mode = 0;
  if (flags & (O_CREAT | O_TMPFILE)) { va_list ap; va_start(ap, flags); mode = va_arg(ap, mode_t); va_end(ap); }
  return doOpenat(AT_FDCWD, path, flags, mode);
}
static FILE* doFopen(const char* path, const char* mode, const char* sym) {
  auto& i = ip();
  std::string redir;
  if (i.active) {
    redir = redirect(path);
    path = redir.c_str();
    if (ours(redir) && i.onOpen) {
      int e = i.onOpen(redir, (mode && (mode[0] == 'w' || mode[0] == 'a')) ? O_WRONLY : O_RDONLY);
      if (e > 0) { errno = e; return nullptr; }
      if (e == -1) { redir = "/dev/null"; path = redir.c_str(); }
      if (e == -2) { redir = "/"; path = redir.c_str(); }
    }
  }
  using F = FILE* (*)(const char*, const char*);
  static F r64 = real<F>("fopen64");
  (void)sym;
  FILE* f = r64(path, mode);
  if (f && i.active && ours(path) && i.onOpened)
    i.onOpened(path, (mode && (mode[0] == 'w' || mode[0] == 'a')) ? O_WRONLY : O_RDONLY);
  return f;
}
FILE* fopen(const char* path, const char* mode) { return doFopen(path, mode, "fopen"); }
FILE* fopen64(const char* path, const char* mode) { return doFopen(path, mode, "fopen64"); }

ssize_t write(int fd, const void* buf, size_t n) {
  auto& i = ip();
  if (i.active && fd > 2 && (i.onWrite || i.onWriteErr)) {
    std::string p = fdPath(fd);
    if ((!i.kmsgPath.empty() && p == i.kmsgPath) || ours(p)) {
      if (i.onWriteErr) {
        int e = i.onWriteErr(p, std::string((const char*)buf, n));
        if (e > 0) { errno = e; return -1; }
      }
      if (i.onWrite) i.onWrite(p, std::string((const char*)buf, n));
    }
  }
  return syscall(SYS_write, fd, buf, n);
}

struct dirent* readdir(DIR* d) {
  using F = struct dirent* (*)(DIR*);
  static F r = real<F>("readdir");
  struct dirent* e = r(d);
  if (e && ip().active && ip().onReaddir) ip().onReaddir(verif::fdPath(dirfd(d)), e->d_name);
  if (e && ip().active && ip().clearDType) e->d_type = DT_UNKNOWN;
  return e;
}

struct dirent64* readdir64(DIR* d) {
  using F = struct dirent64* (*)(DIR*);
  static F r = real<F>("readdir64");
  struct dirent64* e = r(d);
  if (e && ip().active && ip().onReaddir) ip().onReaddir(verif::fdPath(dirfd(d)), e->d_name);
  if (e && ip().active && ip().clearDType) e->d_type = DT_UNKNOWN;
  return e;
}

// ---------------------------------------------------------------- signals & reaping
int kill(pid_t pid, int sig) {
  auto& i = ip();
  if (!i.active || !i.onKill) return (int)syscall(SYS_kill, pid, sig);
  KillOutcome o = i.onKill(pid, sig);
  if (o.rc != 0) errno = o.err;
  return o.rc;
}
long syscall(long number, ...) __THROW;
}

// syscall() is variadic; forward generically with 6 register arguments.
extern "C" long syscall(long number, ...) __THROW {
  va_list ap;
  va_start(ap, number);
  long a = va_arg(ap, long), b = va_arg(ap, long), c = va_arg(ap, long), d = va_arg(ap, long),
       e = va_arg(ap, long), f = va_arg(ap, long);
  va_end(ap);
  auto& i = ip();
  if (i.active && number == SYS_pidfd_open && i.onPidfdOpen) {
    int r = i.onPidfdOpen((int)a);
    if (r < 0) { errno = -r; return -1; }
    return r;
  }
  if (i.active && number == __NR_process_mrelease && i.onMrelease) {
    int r = i.onMrelease((int)a);
    if (r < 0) { errno = -r; return -1; }
    return r;
  }
  long ret;
  register long r10 __asm__("r10") = d;
  register long r8 __asm__("r8") = e;
  register long r9 __asm__("r9") = f;
  __asm__ volatile("syscall"
                   : "=a"(ret)
                   : "a"(number), "D"(a), "S"(b), "d"(c), "r"(r10), "r"(r8), "r"(r9)
                   : "rcx", "r11", "memory");
  if (ret < 0 && ret > -4096) { errno = (int)-ret; return -1; }
  return ret;
}
