// Scripted detector/action plugins and prekill hooks, registered in the REAL PluginRegistry /
// PrekillHookRegistry under test-only names so that the real ConfigCompiler instantiates them.
// They log init / prerun / run (with the ActionContext seen) / destruction and return what the
// installed decider says.
#pragma once
#include <functional>
#include <string>
#include <utility>
#include <vector>

namespace verif {

struct CallInfo {
  int serial;
  std::string id;
  bool isAction;
  long callNo; // number of run() calls made so far on this object
};
struct Decision {
  int ret{0};   // 0 CONTINUE, 1 STOP, 2 ASYNC_PAUSED
  int advMs{0}; // virtual time consumed inside run()
};
using Decider = std::function<Decision(const CallInfo&)>;
void setDecider(Decider d);

// hook scripting: how many didFinish() polls return false before true; -1 = never finishes
using HookDecider = std::function<int(const std::string& hookId, const std::string& cgroup)>;
void setHookDecider(HookDecider d);

// uuid interning (run uuids are 128-bit hex strings; the specification sees small integers)
int internUuid(const std::string& uuid);
void resetScenario(); // forget interning; serial numbers keep increasing

// successful init() calls of scripted plugins since the last clear: (id, post_action_delay or -1)
std::vector<std::pair<std::string, int>>& initLog();
std::string& lastNote(); // value of the free-form "note" argument of the last successful init

// concurrent use (C14: init runs on the watcher thread): no events, no shared init log; the id of the last
// successful init on THIS thread is kept instead
void setConcurrentMode(bool on);
std::string& lastInitIdThisThread();

// while on, init() of a scripted plugin does everything it normally does (and logs Init) but REPORTS failure (returns
// 1): what a real plugin's init() does when e.g. /proc/meminfo cannot be read at that moment.  Meant for the window
// in which the engine re-creates plugin objects on its own (per-cgroup instances inside a tick).
void setInitReportsFailure(bool on);

extern const char* kDetName; // "verif_det"
extern const char* kActName; // "verif_act"
extern const char* kHookName; // "verif_hook"

} // namespace verif
