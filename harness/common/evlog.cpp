#include "evlog.h"
#include <signal.h>
#include <unistd.h>
#include <cstdlib>
#include <cstring>
#include <exception>
#include <mutex>
#include <typeinfo>

namespace verif {

static FILE* g_out = nullptr;
static std::mutex g_mu;
static long long g_count = 0;

std::string J::quote(const std::string& v) {
  std::string o = "\"";
  for (unsigned char c : v) {
    switch (c) {
      case '"': o += "\\\""; break;
      case '\\': o += "\\\\"; break;
      case '\n': o += "\\n"; break;
      case '\t': o += "\\t"; break;
      case '\r': o += "\\r"; break;
      default:
        if (c < 0x20 || c >= 0x7f) {
          char b[8];
          snprintf(b, sizeof b, "\\u%04x", c);
          o += b;
        } else {
          o += (char)c;
        }
    }
  }
  return o + "\"";
}
void J::key(const char* k) {
  if (s_.size() > 1) s_ += ",";
  s_ += "\"";
  s_ += k;
  s_ += "\":";
}
J& J::str(const char* k, const std::string& v) { key(k); s_ += quote(v); return *this; }
J& J::num(const char* k, long long v) { key(k); s_ += std::to_string(v); return *this; }
J& J::boolean(const char* k, bool v) { key(k); s_ += v ? "true" : "false"; return *this; }
J& J::raw(const char* k, const std::string& j) { key(k); s_ += j; return *this; }
std::string J::arr(const std::vector<std::string>& e) {
  std::string o = "[";
  for (size_t i = 0; i < e.size(); i++) { if (i) o += ","; o += e[i]; }
  return o + "]";
}
std::string J::strArr(const std::vector<std::string>& p) {
  std::vector<std::string> e;
  for (auto& s : p) e.push_back(quote(s));
  return arr(e);
}
std::string J::numArr(const std::vector<long long>& v) {
  std::vector<std::string> e;
  for (auto x : v) e.push_back(std::to_string(x));
  return arr(e);
}

void evOpen(const std::string& path) {
  std::lock_guard<std::mutex> g(g_mu);
  if (g_out && g_out != stdout) fclose(g_out);
  g_out = path.empty() || path == "-" ? stdout : fopen(path.c_str(), "w");
  if (!g_out) { perror("evOpen"); _exit(2); }
}
void evEmitRaw(const std::string& line) {
  std::lock_guard<std::mutex> g(g_mu);
  if (!g_out) g_out = stdout;
  fputs(line.c_str(), g_out);
  fputc('\n', g_out);
  g_count++;
}
void evEmit(const J& j) { evEmitRaw(j.done()); }
void evFlush() { std::lock_guard<std::mutex> g(g_mu); if (g_out) fflush(g_out); }
long long evCount() { return g_count; }

std::string pathJson(const std::string& rel) {
  std::vector<std::string> parts;
  std::string cur;
  for (char c : rel) {
    if (c == '/') { if (!cur.empty()) parts.push_back(cur); cur.clear(); }
    else cur += c;
  }
  if (!cur.empty()) parts.push_back(cur);
  return J::strArr(parts);
}

std::string pathCharsJson(const std::string& rel) {
  std::vector<std::string> comps;
  std::string cur;
  auto flush = [&] {
    if (cur.empty()) return;
    std::vector<std::string> cs;
    for (char c : cur) cs.push_back(J::quote(std::string(1, c)));
    comps.push_back(J::arr(cs));
    cur.clear();
  };
  for (char c : rel) { if (c == '/') flush(); else cur += c; }
  flush();
  return J::arr(comps);
}

static void abortWith(const char* why, const std::string& detail) {
  // Not async-signal-safe in the strict sense, but the process is dying anyway and the
  // alternative (a truncated trace) would hide the crash from the specification.
  if (g_out) {
    std::string line = J().str("e", "Abort").str("why", why).str("detail", detail).done();
    fputs(line.c_str(), g_out);
    fputc('\n', g_out);
    fflush(g_out);
  }
  fprintf(stderr, "ABORT(%s): %s\n", why, detail.c_str());
  _exit(0);
}
static void onTerminate() {
  std::string d = "terminate";
  if (auto e = std::current_exception()) {
    try { std::rethrow_exception(e); }
    catch (const std::exception& ex) { d = std::string(typeid(ex).name()) + ": " + ex.what(); }
    catch (...) { d = "unknown exception"; }
  }
  abortWith("terminate", d);
}
static void onSignal(int sig) { abortWith("signal", std::to_string(sig)); }

void installAbortHandlers() {
  std::set_terminate(onTerminate);
  for (int s : {SIGSEGV, SIGBUS, SIGFPE, SIGILL, SIGABRT, SIGPIPE}) signal(s, onSignal);
}

} // namespace verif

// Sanitizer death callback: ASan/UBSan call this (weak hook) before dying.
extern "C" void __sanitizer_set_death_callback(void (*)(void)) __attribute__((weak));
namespace {
struct SanInit {
  SanInit() {
    if (__sanitizer_set_death_callback)
      __sanitizer_set_death_callback([] {
        verif::evEmitRaw("{\"e\":\"Abort\",\"why\":\"sanitizer\",\"detail\":\"see stderr\"}");
        verif::evFlush();
      });
  }
} g_sanInit;
} // namespace
