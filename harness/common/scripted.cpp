#include "scripted.h"
#include <atomic>
#include <map>
#include "evlog.h"
#include "vclock.h"

#include "oomd/OomdContext.h"
#include "oomd/PluginRegistry.h"
#include "oomd/engine/BasePlugin.h"
#include "oomd/engine/PrekillHook.h"
#include "oomd/engine/Ruleset.h"
#include "oomd/util/PluginArgParser.h"

namespace verif {

const char* kDetName = "verif_det";
const char* kActName = "verif_act";
const char* kHookName = "verif_hook";

static Decider g_decider = [](const CallInfo&) { return Decision{}; };
static HookDecider g_hookDecider = [](const std::string&, const std::string&) { return 0; };
static std::atomic<int> g_serial{0};
static std::map<std::string, int> g_uuids;

void setDecider(Decider d) { g_decider = std::move(d); }
void setHookDecider(HookDecider d) { g_hookDecider = std::move(d); }
int internUuid(const std::string& u) {
  if (u.empty()) return 0;
  auto it = g_uuids.find(u);
  if (it != g_uuids.end()) return it->second;
  int n = (int)g_uuids.size() + 1;
  g_uuids[u] = n;
  return n;
}
void resetScenario() { g_uuids.clear(); }
static std::atomic<bool> g_concurrent{false};
void setConcurrentMode(bool on) { g_concurrent.store(on); }
std::string& lastInitIdThisThread() {
  static thread_local std::string s;
  return s;
}
std::string& lastNote() {
  static std::string s;
  return s;
}
std::vector<std::pair<std::string, int>>& initLog() {
  static std::vector<std::pair<std::string, int>> v;
  return v;
}

std::string ctxJson(const Oomd::ActionContext& c) {
  long long dl = -1;
  if (c.prekill_hook_timeout_ts) {
    dl = std::chrono::duration_cast<std::chrono::milliseconds>(
             c.prekill_hook_timeout_ts->time_since_epoch()).count();
  }
  return J().str("rs", c.ruleset_name)
      .str("dg", c.detectorgroup)
      .num("uuid", internUuid(c.action_group_run_uuid))
      .num("deadline", dl)
      .raw("target", c.target_cgroup ? pathJson(c.target_cgroup->relativePath()) : std::string("[\"-\"]"))
      .done();
}

static std::atomic<bool> g_initFails{false};
void setInitReportsFailure(bool on) { g_initFails.store(on); }

namespace {
using namespace Oomd;

class ScriptedPlugin : public Engine::BasePlugin {
 public:
  explicit ScriptedPlugin(bool isAction) : isAction_(isAction), serial_(++g_serial) {}
  ~ScriptedPlugin() override {
    if (g_concurrent.load()) return;
    evEmit(J().str("e", "Dtor").num("serial", serial_));
  }
  int init(const Engine::PluginArgs& args, const PluginConstructionContext& context) override {
    argParser_.addArgument("id", id_, true);
    argParser_.addArgumentCustom("post_action_delay", delay_, PluginArgParser::parseUnsignedInt);
    argParser_.addArgument("cgroup", cgroup_);
    argParser_.addArgument("note", note_); // free-form value, used to observe how JSON values arrive
    if (!argParser_.parse(args)) {
      if (!g_concurrent.load()) evEmit(J().str("e", "InitFail").num("serial", serial_));
      return 1;
    }
    if (g_concurrent.load()) {
      lastInitIdThisThread() = id_;
      return 0;
    }
    std::vector<std::string> kv;
    for (auto& [k, v] : std::map<std::string, std::string>(args.begin(), args.end())) {
      kv.push_back(J::arr({J::quote(k), J::quote(v)}));
    }
    evEmit(J().str("e", "Init").num("serial", serial_).str("id", id_)
               .str("role", isAction_ ? "act" : "det")
               .num("delay", delay_ ? *delay_ : -1)
               .str("cg", cgroup_)
               .str("fs", context.cgroupFs())
               .raw("args", J::arr(kv)));
    initLog().emplace_back(id_, delay_ ? *delay_ : -1);
    lastNote() = note_;
    return g_initFails.load() ? 1 : 0;
  }
  void prerun(OomdContext&) override {
    if (g_concurrent.load()) return;
    evEmit(J().str("e", "Prerun").num("serial", serial_));
  }
  Engine::PluginRet run(OomdContext& ctx) override {
    auto seen = ctxJson(ctx.getActionContext());
    auto ruleset = ctx.getInvokingRuleset();
    bool hasRs = ruleset.has_value() && *ruleset != nullptr;
    Decision d = g_decider(CallInfo{serial_, id_, isAction_, calls_++});
    if (d.advMs) vclockAdvance(d.advMs);
    if (g_concurrent.load()) {
      return d.ret == 1 ? Engine::PluginRet::STOP : d.ret == 2 ? Engine::PluginRet::ASYNC_PAUSED : Engine::PluginRet::CONTINUE;
    }
    bool applied = false;
    if (isAction_ && d.ret == 1 && hasRs && delay_) {
      // exactly what BaseKillPlugin::run does with its post_action_delay argument
      (*ruleset)->pause_actions(std::chrono::seconds(*delay_));
      applied = true;
    }
    static const char* names[] = {"CONTINUE", "STOP", "ASYNC"};
    evEmit(J().str("e", "Run").num("serial", serial_).str("role", isAction_ ? "act" : "det")
               .str("ret", names[d.ret]).num("adv", d.advMs).raw("ctx", seen)
               .boolean("hasRs", hasRs).boolean("applied", applied).num("t", vclockNowMs()));
    switch (d.ret) {
      case 1: return Engine::PluginRet::STOP;
      case 2: return Engine::PluginRet::ASYNC_PAUSED;
      default: return Engine::PluginRet::CONTINUE;
    }
  }
  static ScriptedPlugin* createDet() { return new ScriptedPlugin(false); }
  static ScriptedPlugin* createAct() { return new ScriptedPlugin(true); }

 private:
  bool isAction_;
  int serial_;
  long calls_{0};
  std::string id_;
  std::string cgroup_;
  std::string note_;
  std::optional<int> delay_;
};

class ScriptedInvocation : public Engine::PrekillHookInvocation {
 public:
  ScriptedInvocation(int inv, std::string hook, int pollsLeft)
      : inv_(inv), hook_(std::move(hook)), pollsLeft_(pollsLeft) {}
  ~ScriptedInvocation() override {
    evEmit(J().str("e", "HookDestroy").num("inv", inv_).str("hook", hook_));
  }
  bool didFinish() override {
    bool fin = pollsLeft_ == 0;
    if (pollsLeft_ > 0) pollsLeft_--;
    evEmit(J().str("e", "HookPoll").num("inv", inv_).str("hook", hook_).boolean("res", fin)
               .num("t", vclockNowMs()));
    return fin;
  }
 private:
  int inv_;
  std::string hook_;
  int pollsLeft_;
};

static std::atomic<int> g_inv{0};

class ScriptedHook : public Engine::PrekillHook {
 public:
  int init(const Engine::PluginArgs& args, const PluginConstructionContext& context) override {
    argParser_.addArgument("id", id_, true);
    // the base class registers "cgroup" itself
    int r = Engine::PrekillHook::init(args, context);
    evEmit(J().str("e", r == 0 ? "HookInit" : "HookInitFail").str("hook", id_));
    return r;
  }
  ~ScriptedHook() override { evEmit(J().str("e", "HookGone").str("hook", id_)); }
  std::unique_ptr<Engine::PrekillHookInvocation> fire(
      const CgroupContext& cg, const ActionContext& actx) override {
    int inv = ++g_inv;
    int polls = g_hookDecider(id_, cg.cgroup().relativePath());
    long long gen = -1;
    if (auto id = cg.id()) gen = (long long)(*id % 1000000007ULL);
    evEmit(J().str("e", "HookFire").str("hook", id_).num("inv", inv)
               .raw("p", pathJson(cg.cgroup().relativePath())).raw("pc", pathCharsJson(cg.cgroup().relativePath()))
               .num("gen", gen)
               .raw("ctx", ctxJson(actx)).num("polls", polls).num("t", vclockNowMs()));
    return std::make_unique<ScriptedInvocation>(inv, id_, polls);
  }
 private:
  std::string id_;
};

struct Registrar {
  Registrar() {
    getPluginRegistry().add(kDetName, [] { return (Engine::BasePlugin*)ScriptedPlugin::createDet(); });
    getPluginRegistry().add(kActName, [] { return (Engine::BasePlugin*)ScriptedPlugin::createAct(); });
    getPrekillHookRegistry().add(kHookName, [] { return (Engine::PrekillHook*)new ScriptedHook(); });
  }
} g_registrar;
} // namespace
} // namespace verif
