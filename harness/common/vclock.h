// Virtual CLOCK_MONOTONIC for the real, unmodified oomd code: clock_gettime/nanosleep defined in
// the driver executable take precedence over libc (verified: steady_clock::now() and
// std::this_thread::sleep_for follow them).
#pragma once
#include <cstdint>
namespace verif {
void vclockEnable(bool on);          // off: pass through to the kernel (threaded drivers)
void vclockSet(int64_t ms);
void vclockAdvance(int64_t ms);
int64_t vclockNowMs();
int64_t vclockSleptMs();             // total virtual time consumed by sleeps inside the code
} // namespace verif
