#include "simfs.h"
#include <dirent.h>
#include <fcntl.h>
#include <sys/stat.h>
#include <sys/syscall.h>
#include <unistd.h>
#include <algorithm>
#include <cstdlib>
#include <cstring>
#include <fstream>
#include <functional>
#include <sstream>
#include <stdexcept>

namespace verif {

std::map<std::string, std::map<std::string, std::string>>& xattrStore() {
  static std::map<std::string, std::map<std::string, std::string>> s;
  return s;
}
std::map<std::string, long long>& genStore() {
  static std::map<std::string, long long> s;
  return s;
}
long long nextGen() {
  static long long g = 1000;
  return ++g;
}

static void rmrf(const std::string& p) {
  DIR* d = opendir(p.c_str());
  if (d) {
    while (auto* e = readdir(d)) {
      if (!strcmp(e->d_name, ".") || !strcmp(e->d_name, "..")) continue;
      std::string c = p + "/" + e->d_name;
      struct stat sb;
      if (lstat(c.c_str(), &sb) == 0 && S_ISDIR(sb.st_mode)) rmrf(c);
      else unlink(c.c_str());
    }
    closedir(d);
    rmdir(p.c_str());
  } else {
    unlink(p.c_str());
  }
}

SimFs::SimFs() {
  const char* t = getenv("VERIF_TMP");
  std::string tmpl = std::string(t ? t : "/tmp") + "/vsim.XXXXXX";
  std::vector<char> buf(tmpl.begin(), tmpl.end());
  buf.push_back(0);
  if (!mkdtemp(buf.data())) throw std::runtime_error("mkdtemp failed");
  base_ = buf.data();
  root_ = base_ + "/cg";
  mkdir(root_.c_str(), 0755);
  writeAbs(root_ + "/cgroup.controllers", "memory io pids\n");
  genStore()[root_] = nextGen();
}
SimFs::~SimFs() {
  for (auto it = xattrStore().begin(); it != xattrStore().end();) {
    if (it->first.compare(0, base_.size(), base_) == 0) it = xattrStore().erase(it);
    else ++it;
  }
  for (auto it = genStore().begin(); it != genStore().end();) {
    if (it->first.compare(0, base_.size(), base_) == 0) it = genStore().erase(it);
    else ++it;
  }
  rmrf(base_);
}
std::string SimFs::abs(const std::string& rel) const {
  return rel.empty() ? root_ : root_ + "/" + rel;
}
void SimFs::writeAbs(const std::string& path, const std::string& content) {
  // raw system calls: the harness's own file operations must not pass through the interposers
  int fd = (int)syscall(SYS_openat, AT_FDCWD, path.c_str(), O_WRONLY | O_CREAT | O_TRUNC, 0644);
  if (fd < 0) return;
  size_t off = 0;
  while (off < content.size()) {
    long n = syscall(SYS_write, fd, content.data() + off, content.size() - off);
    if (n <= 0) break;
    off += (size_t)n;
  }
  syscall(SYS_close, fd);
}
void SimFs::mkcg(const std::string& rel) {
  std::string cur;
  std::stringstream ss(rel);
  std::string part;
  while (std::getline(ss, part, '/')) {
    if (part.empty()) continue;
    cur = cur.empty() ? part : cur + "/" + part;
    std::string a = abs(cur);
    if (mkdir(a.c_str(), 0755) == 0) {
      writeAbs(a + "/cgroup.controllers", "memory io pids\n");
      genStore()[a] = nextGen();
    }
  }
}
void SimFs::rmcg(const std::string& rel) {
  std::string a = abs(rel);
  rmrf(a);
  auto drop = [&](auto& store) {
    for (auto it = store.begin(); it != store.end();) {
      if (it->first == a || it->first.compare(0, a.size() + 1, a + "/") == 0) it = store.erase(it);
      else ++it;
    }
  };
  drop(xattrStore());
  drop(genStore());
}
bool SimFs::exists(const std::string& rel) const {
  struct stat sb;
  return stat(abs(rel).c_str(), &sb) == 0 && S_ISDIR(sb.st_mode);
}
void SimFs::write(const std::string& rel, const std::string& file, const std::string& content) {
  writeAbs(abs(rel) + "/" + file, content);
}
void SimFs::remove(const std::string& rel, const std::string& file) {
  unlink((abs(rel) + "/" + file).c_str());
}
std::string SimFs::read(const std::string& rel, const std::string& file) const {
  std::string path = abs(rel) + "/" + file, s;
  int fd = (int)syscall(SYS_openat, AT_FDCWD, path.c_str(), O_RDONLY, 0);
  char buf[8192];
  long n;
  while (fd >= 0 && (n = syscall(SYS_read, fd, buf, sizeof buf)) > 0) s.append(buf, (size_t)n);
  if (fd >= 0) syscall(SYS_close, fd);
  return s;
}
void SimFs::setXattr(const std::string& rel, const std::string& name, const std::string& val) {
  xattrStore()[abs(rel)][name] = val;
}
void SimFs::clearXattr(const std::string& rel, const std::string& name) {
  auto it = xattrStore().find(abs(rel));
  if (it != xattrStore().end()) it->second.erase(name);
}
long long SimFs::gen(const std::string& rel) const {
  auto it = genStore().find(abs(rel));
  return it == genStore().end() ? -1 : it->second;
}
std::vector<std::string> SimFs::listCgroups() const {
  std::vector<std::string> out;
  std::function<void(const std::string&)> walk = [&](const std::string& rel) {
    DIR* d = opendir(abs(rel).c_str());
    if (!d) return;
    std::vector<std::string> kids;
    while (auto* e = readdir(d)) {
      if (e->d_name[0] == '.') continue;
      std::string c = rel.empty() ? e->d_name : rel + "/" + e->d_name;
      struct stat sb;
      if (stat(abs(c).c_str(), &sb) == 0 && S_ISDIR(sb.st_mode)) kids.push_back(c);
    }
    closedir(d);
    std::sort(kids.begin(), kids.end());
    for (auto& k : kids) { out.push_back(k); walk(k); }
  };
  walk("");
  return out;
}

} // namespace verif
