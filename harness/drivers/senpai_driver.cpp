// Conformance driver for C18: the REAL senpai plugin runs tick by tick on a simulated cgroupfs; every
// write(2) on a control file and on the swappiness file is recorded (path, file, value) together with
// the statistics of the matched cgroups for Senpai_Trace.tla.
// usage: senpai_driver <trace.ndjson> <seed> <nScenarios> [firstScenario]
#include <fcntl.h>
#include <sys/stat.h>
#include <unistd.h>
#include <algorithm>
#include <cstdio>
#include <cstdlib>
#include <map>
#include <random>
#include <sstream>

#include "../common/evlog.h"
#include "../common/interpose.h"
#include "../common/simfs.h"
#include "../common/vclock.h"
#include "oomd/Log.h"
#include "oomd/OomdContext.h"
#include "oomd/PluginRegistry.h"

using namespace verif;
struct Rng {
  std::mt19937_64 g;
  explicit Rng(uint64_t s) : g(s) {}
  int upto(int n) { return (int)(g() % (uint64_t)n); }
  bool chance(int pct) { return upto(100) < pct; }
  template <class T> const T& pick(const std::vector<T>& v) { return v[upto((int)v.size())]; }
};
static const long long PG = 4096, INFP = 2000000000LL;
struct Cg { long long usage, fileCache, anon, memMin, memHigh, memMax, swapCur, swapMax, total; int ms10, ms60, is10, is60; };
static std::string pages(long long v) { return v >= INFP ? "max" : std::to_string(v * PG); }
static std::string hund(int v) { char b[32]; snprintf(b, sizeof b, "%d.%02d", v / 100, v % 100); return b; }

int main(int argc, char** argv) {
  if (argc < 4) return 2;
  evOpen(argv[1]);
  uint64_t seed = strtoull(argv[2], nullptr, 10);
  int nScn = atoi(argv[3]), firstScn = argc > 4 ? atoi(argv[4]) : 0;
  installAbortHandlers();
  std::ostringstream sink;
  Oomd::Log::get(-1, sink, true);
  vclockEnable(true); vclockSet(1000000);
  auto& I = ip();
  I.active = true;
  for (int scn = firstScn; scn < firstScn + nScn; scn++) {
    Rng r(seed * 32452843ULL + scn);
    SimFs fs;
    I.base = fs.base();
    std::string proc = fs.base() + "/proc";
    mkdir(proc.c_str(), 0755); mkdir((proc + "/sys").c_str(), 0755); mkdir((proc + "/sys/vm").c_str(), 0755);
    I.procRedirect = proc;
    long long memTotal = r.pick(std::vector<long long>{2000, 100000, 4000000});   // pages
    fs.writeAbs(proc + "/meminfo", "MemTotal: " + std::to_string(memTotal * 4) + " kB\n");
    bool immediate = r.chance(50), hasReclaim = r.chance(50), hasHighTmp = r.chance(50), swapValidation = r.chance(50), modulate = immediate && r.chance(40);
    long long limitMin = r.pick(std::vector<long long>{0, 10, 100, 25600}), limitMax = r.pick(std::vector<long long>{50, 1000, 2621440});
    int interval = r.pick(std::vector<int>{0, 1, 2, 6});
    int pressureMs = r.pick(std::vector<int>{1, 10, 100});
    struct Frac { int n, d; std::string s; };
    Frac maxProbe = r.pick(std::vector<Frac>{{1, 100, "0.01"}, {1, 10, "0.1"}, {1, 2, "0.5"}});
    Frac maxBackoff = r.pick(std::vector<Frac>{{1, 1, "1.0"}, {1, 2, "0.5"}, {2, 1, "2"}});
    Frac memPct = r.pick(std::vector<Frac>{{1, 10, "0.1"}, {1, 1, "1"}, {5, 1, "5"}}), ioPct = r.pick(std::vector<Frac>{{1, 10, "0.1"}, {1, 1, "1"}});
    Frac swapThr = r.pick(std::vector<Frac>{{4, 5, "0.8"}, {1, 2, "0.5"}, {1, 5, "0.2"}});
    Oomd::Engine::PluginArgs args{{"cgroup", "w*"}, {"limit_min_bytes", std::to_string(limitMin * PG)}, {"limit_max_bytes", std::to_string(limitMax * PG)},
        {"interval", std::to_string(interval)}, {"pressure_ms", std::to_string(pressureMs)}, {"max_probe", maxProbe.s}, {"max_backoff", maxBackoff.s},
        {"pressure_pct", memPct.s}, {"io_pressure_pct", ioPct.s}, {"swap_threshold", swapThr.s}};
    if (immediate) args["immediate_backoff"] = "true";
    if (swapValidation) args["swap_validation"] = "true";
    if (modulate) args["modulate_swappiness"] = "true";
    std::unique_ptr<Oomd::Engine::BasePlugin> pl(Oomd::getPluginRegistry().create("senpai"));
    pl->setName("senpai");
    if (pl->initPlugin(args, Oomd::PluginConstructionContext(fs.root())) != 0) { fprintf(stderr, "senpai init failed\n"); return 3; }
    evEmit(J().str("e", "SReset").num("scn", scn).num("seed", (long long)seed)
               .raw("cfg", J().str("mode", immediate ? "immediate" : "normal").num("limitMin", limitMin).num("limitMax", limitMax).num("memTotal", memTotal)
                               .num("interval", interval).num("pressureUs", pressureMs * 1000)
                               .raw("maxProbe", J().num("num", maxProbe.n).num("den", maxProbe.d).done())
                               .raw("maxBackoff", J().num("num", maxBackoff.n).num("den", maxBackoff.d).done())
                               .raw("memPct", J().num("num", memPct.n).num("den", memPct.d).done()).raw("ioPct", J().num("num", ioPct.n).num("den", ioPct.d).done())
                               .raw("swapThr", J().num("num", swapThr.n).num("den", swapThr.d).done())
                               .boolean("swapValidation", swapValidation).boolean("modulate", modulate).done()));
    int failPct = r.pick(std::vector<int>{0, 0, 10, 25});
    int vanishPct = r.pick(std::vector<int>{0, 15, 40});
    // some control-file writes fail (EAGAIN / the cgroup is on its way out): senpai must drop the cgroup cleanly
    I.onWriteErr = [&](const std::string& path, const std::string& data) -> int {
      auto pos = path.rfind('/');
      std::string file = path.substr(pos + 1), dir = path.substr(0, pos);
      if (dir.compare(0, fs.root().size(), fs.root()) != 0 || !r.chance(failPct)) return 0;
      std::string rel = dir.size() > fs.root().size() ? dir.substr(fs.root().size() + 1) : "";
      evEmit(J().str("e", "CtlWriteFailed").str("p", rel).str("file", file).str("raw", data));
      return EAGAIN;
    };
    I.onWrite = [&](const std::string& path, const std::string& data) {
      auto pos = path.rfind('/');
      std::string file = path.substr(pos + 1), dir = path.substr(0, pos);
      if (path == proc + "/sys/vm/swappiness") { evEmit(J().str("e", "Swp").num("v", atoll(data.c_str()))); return; }
      if (dir.compare(0, fs.root().size(), fs.root()) != 0) return;
      std::string rel = dir.size() > fs.root().size() ? dir.substr(fs.root().size() + 1) : "";
      long long bytes = atoll(data.c_str());
      long long v = data.rfind("9223372036854775807", 0) == 0 ? INFP : (bytes % PG == 0 ? bytes / PG : -777777);
      evEmit(J().str("e", "CtlWrite").str("p", rel).str("file", file).num("v", v).str("raw", data));
    };
    Oomd::OomdContext ctx;
    std::map<std::string, Cg> world;
    fs.mkcg("x");
    fs.write("x", "memory.current", "4096\n"); fs.write("x", "memory.high", "max\n"); fs.write("x", "memory.reclaim", "");
    long long swapTotal = r.pick(std::vector<long long>{0, 1000, 100000}), swapUsed = swapTotal ? r.upto((int)swapTotal) : 0;
    int swappiness = r.pick(std::vector<int>{0, 10, 60});
    int nTicks = 4 + r.upto(12);
    for (int k = 0; k < nTicks; k++) {
      vclockAdvance(1000);
      for (auto name : {"w1", "w2", "w3"}) {
        bool have = world.count(name);
        if (have && r.chance(8)) { world.erase(name); fs.rmcg(name); have = false; }                    // removed
        else if (have && r.chance(6)) { fs.rmcg(name); world.erase(name); have = false; world[name] = Cg{}; world[name].total = 0; } // re-created
        else if (!have && r.chance(k == 0 ? 70 : 15)) { world[name] = Cg{}; world[name].total = 0; }
      }
      std::vector<std::pair<long long, std::string>> order;
      for (auto& [name, c] : world) {
        bool fresh = !fs.exists(name);
        fs.mkcg(name);
        c.usage = r.pick(std::vector<long long>{50, 200, 1000, 25600, 64000});
        c.fileCache = c.usage * r.pick(std::vector<int>{0, 20, 50, 80}) / 100; c.anon = c.usage - c.fileCache;
        c.memMin = r.chance(30) ? r.pick(std::vector<long long>{10, 500, 30000}) : 0;
        c.memHigh = r.chance(40) ? r.pick(std::vector<long long>{100, 900, 50000}) : INFP;
        c.memMax = r.chance(40) ? r.pick(std::vector<long long>{150, 1100, 70000}) : INFP;
        c.swapMax = r.chance(50) ? INFP : r.pick(std::vector<long long>{0, 100, 5000}); c.swapCur = c.swapMax >= INFP ? r.upto(100) : (c.swapMax ? r.upto((int)c.swapMax + 1) : 0);
        c.total += r.pick(std::vector<long long>{0, 0, 100, 5000, 9999, 10000, 50000, 1000000});
        c.ms10 = r.pick(std::vector<int>{0, 5, 9, 10, 11, 99, 100, 500}); c.ms60 = r.pick(std::vector<int>{0, 5, 9, 10, 99, 100});
        c.is10 = r.pick(std::vector<int>{0, 5, 9, 10, 99, 100}); c.is60 = r.pick(std::vector<int>{0, 5, 9, 10, 99});
        fs.write(name, "memory.current", pages(c.usage) + "\n");
        fs.write(name, "memory.min", pages(c.memMin) + "\n");
        fs.write(name, "memory.max", pages(c.memMax) + "\n");
        fs.write(name, "memory.swap.current", pages(c.swapCur) + "\n"); fs.write(name, "memory.swap.max", pages(c.swapMax) + "\n");
        fs.write(name, "memory.stat", "anon " + pages(c.anon) + "\nfile " + pages(c.fileCache) + "\nactive_file " + pages(c.fileCache / 2) + "\ninactive_file " + pages(c.fileCache - c.fileCache / 2) +
                                          "\nactive_anon " + pages(c.anon / 3) + "\ninactive_anon " + pages(c.anon - c.anon / 3) + "\npgscan 1\n");
        fs.write(name, "memory.pressure", "some avg10=" + hund(c.ms10) + " avg60=" + hund(c.ms60) + " avg300=0.00 total=" + std::to_string(c.total) + "\nfull avg10=0.00 avg60=0.00 avg300=0.00 total=0\n");
        fs.write(name, "io.pressure", "some avg10=" + hund(c.is10) + " avg60=" + hund(c.is60) + " avg300=0.00 total=1\nfull avg10=0.00 avg60=0.00 avg300=0.00 total=0\n");
        if (hasReclaim) { if (fresh) fs.write(name, "memory.reclaim", ""); }
        if (fresh) {
          if (hasHighTmp) { fs.write(name, "memory.high.tmp", "max 0\n"); }
          fs.write(name, "memory.high", (hasHighTmp ? pages(c.memHigh) : std::string("max")) + "\n");
        } else if (hasHighTmp) fs.write(name, "memory.high", pages(c.memHigh) + "\n");
        // sometimes somebody else changes the limit senpai maintains
        if (!fresh && !immediate && r.chance(7)) fs.write(name, hasHighTmp ? "memory.high.tmp" : "memory.high", hasHighTmp ? "max 0\n" : "max\n");
        order.push_back({fs.gen(name), name});
      }
      std::sort(order.begin(), order.end());
      swapUsed = swapTotal ? r.upto((int)swapTotal + 1) : 0;
      fs.writeAbs(proc + "/sys/vm/swappiness", std::to_string(swappiness) + "\n");
      Oomd::SystemContext sc; sc.swaptotal = (uint64_t)(swapTotal * PG); sc.swapused = (uint64_t)(swapUsed * PG); sc.swappiness = swappiness;
      ctx.setSystemContext(sc);
      std::vector<std::string> cj;
      for (auto& [gen, name] : order) {
        Cg& c = world[name];
        std::string lf = fs.read(name, hasHighTmp ? "memory.high.tmp" : "memory.high");
        long long limitFile = lf.rfind("max", 0) == 0 || lf.rfind("9223372036854775807", 0) == 0 ? INFP : atoll(lf.c_str()) / PG;
        long long localFree = (c.swapMax >= INFP ? INFP : c.swapMax) - c.swapCur;
        long long effFree = std::min(swapTotal - swapUsed, localFree), effMax = std::min(swapTotal, c.swapMax >= INFP ? INFP : c.swapMax);
        long long utilPpm = 0;
        if (c.swapMax != 0) {
          double loc = c.swapMax >= INFP ? 0.0 : (double)c.swapCur / c.swapMax, root = swapTotal ? (double)swapUsed / swapTotal : 0.0;
          utilPpm = llround(std::max(loc, root) * 1e6);
        }
        cj.push_back(J().str("path", name).num("id", gen % 1000000007LL).num("usage", c.usage).num("fileCache", c.fileCache).num("anon", c.anon)
                         .num("effSwapFree", effFree).num("effSwapMax", effMax).num("swapUtilPpm", utilPpm).num("memMin", c.memMin)
                         .num("memHigh", c.memHigh).num("memMax", c.memMax).num("limitFile", limitFile).num("total", c.total)
                         .num("memSome10", c.ms10).num("memSome60", c.ms60).num("ioSome10", c.is10).num("ioSome60", c.is60)
                         .boolean("hasReclaim", hasReclaim).boolean("hasHighTmp", hasHighTmp).done());
      }
      evEmit(J().str("e", "STick").raw("cgs", J::arr(cj)).raw("sys", J().num("swaptotal", swapTotal).num("swappiness", swappiness).done()));
      ctx.refresh();
      // sometimes a matched cgroup is removed in the MIDDLE of the tick: right before the k-th open of one of its
      // files by the plugin (k = 0: before its first access, later k: between its reads / between read and write)
      std::string doomed; int countdown = 0;
      if (!order.empty() && r.chance(vanishPct)) { doomed = order[r.upto((int)order.size())].second; countdown = r.upto(9); }
      I.onOpen = [&](const std::string& path, int) -> int {
        if (doomed.empty()) return 0;
        std::string dir = fs.root() + "/" + doomed + "/";
        if (path.compare(0, dir.size(), dir) != 0) return 0;
        if (countdown-- > 0) return 0;
        evEmit(J().str("e", "Vanish").str("p", doomed).str("at", path.substr(dir.size())));
        fs.rmcg(doomed); world.erase(doomed); doomed.clear();
        return 0;
      };
      pl->run(ctx);
      I.onOpen = nullptr;
      evEmit(J().str("e", "STickEnd"));
    }
    I.onWrite = nullptr; I.onWriteErr = nullptr;
    evEmit(J().str("e", "SEnd"));
  }
  evFlush();
  _exit(0);
}
