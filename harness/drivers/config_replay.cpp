// C12 replay: every case enumerated by TLC from MC_Config.tla (with the decision model's verdict)
// is evaluated on the REAL JsonConfigParser / ConfigCompiler / PluginArgParser / Util::parseSize.
// Outcomes per case: agreement, a mismatch belonging to a catalogued leniency class (reported by
// key, decided against known_findings.txt by the checker), or a plain mismatch (violation).
// usage: config_replay <cases.ndjson> <result.json>
#include <json/json.h>
#include <unistd.h>
#include <cmath>
#include <fstream>
#include <iostream>
#include <map>
#include <set>
#include <sstream>

#include "../common/evlog.h"
#include "../common/scripted.h"
#include "oomd/Log.h"
#include "oomd/config/ConfigCompiler.h"
#include "oomd/config/ConfigTypes.h"
#include "oomd/config/JsonConfigParser.h"
#include "oomd/engine/Engine.h"
#include "oomd/util/PluginArgParser.h"
#include "oomd/util/Util.h"

namespace IR = Oomd::Config2::IR;
using verif::J;

static std::string str(const Json::Value& chars) { std::string s; for (auto& c : chars) s += c.asString(); return s; }

struct Tally {
  long cases = 0, agree = 0;
  std::map<std::string, long> known;               // leniency class -> count
  std::map<std::string, std::string> knownExample;
  std::vector<std::string> bad;
  long nbad = 0;
  void mismatch(const std::string& what, const std::string& line) {
    nbad++;
    if (bad.size() < 25) bad.push_back(J().str("what", what).raw("case", line).done());
  }
  void lenient(const std::string& key, const std::string& ex) {
    known[key]++;
    if (!knownExample.count(key)) knownExample[key] = ex;
  }
};

template <class F> static bool accepts(F f) { try { f(); return true; } catch (const std::exception&) { return false; } }

static bool allIn(const std::string& s, const char* set) { return s.find_first_not_of(set) == std::string::npos; }

// exact value of an accepted size string from the model's component list; false if >= 2^63
static bool exactSize(const Json::Value& comps, __int128& out, bool& fractional) {
  __int128 totalNum = 0; // value * 10^18
  const __int128 SCALE = (__int128)1000000000000000000LL;
  fractional = false;
  for (auto& c : comps) {
    std::string num = str(c["num"]), unit = c["unit"].asString();
    std::string ip = num, fp;
    auto dot = num.find('.');
    if (dot != std::string::npos) { ip = num.substr(0, dot); fp = num.substr(dot + 1); }
    if (ip.size() > 19 || fp.size() > 18) return false; // outside what the driver evaluates exactly
    __int128 v = 0;
    for (char ch : ip) v = v * 10 + (ch - '0');
    __int128 f = 0, fs = 1;
    for (char ch : fp) { f = f * 10 + (ch - '0'); fs *= 10; }
    __int128 scaled = v * SCALE + f * (SCALE / fs);
    int sh = 0;
    if (unit == "k" || unit == "K") sh = 10; else if (unit == "m" || unit == "M") sh = 20;
    else if (unit == "g" || unit == "G") sh = 30; else if (unit == "t" || unit == "T") sh = 40;
    if (v > ((__int128)1 << 63)) return false;
    totalNum += scaled << sh;
    if (totalNum / SCALE >= ((__int128)1 << 63)) return false;
  }
  out = totalNum / SCALE;
  fractional = (totalNum % SCALE) != 0;
  return true;
}

int main(int argc, char** argv) {
  if (argc < 3) return 2;
  verif::installAbortHandlers();
  verif::evOpen("/dev/null");
  std::ostringstream sink;
  Oomd::Log::get(-1, sink, true);
  std::ifstream in(argv[1]);
  std::string line;
  Tally T;
  Json::CharReaderBuilder rb;
  using PAP = Oomd::PluginArgParser;
  while (std::getline(in, line)) {
    if (line.empty()) continue;
    Json::Value c; std::string errs; std::istringstream ss(line);
    if (!Json::parseFromStream(rb, ss, &c, &errs)) return 2;
    T.cases++;
    long before = T.nbad;
    std::string kind = c["kind"].asString();
    if (kind == "N") {
      std::string s = str(c["s"]);
      if (s.rfind("-0", 0) == 0) { T.agree++; continue; } // "-0...": unspecified
      struct Ty { const char* name; bool model; bool impl; bool valueOk; };
      long long wantLL = 0; bool haveLL = allIn(s, "-0123456789") && !s.empty() && s != "-";
      if (haveLL) { errno = 0; wantLL = strtoll(s.c_str(), nullptr, 10); }
      int gotI = 0; int64_t got64 = 0; double gotD = 0; int gotU = 0;
      bool iU = accepts([&] { gotU = PAP::parseUnsignedInt(s); });
      bool iI = accepts([&] { gotI = PAP::parseValue<int>(s); });
      bool i64 = accepts([&] { got64 = PAP::parseValue<int64_t>(s); });
      bool iD = accepts([&] { gotD = PAP::parseValue<double>(s); });
      bool iF = accepts([&] { (void)PAP::parseValue<float>(s); });
      bool iB = accepts([&] { (void)PAP::parseValue<bool>(s); });
      Ty tys[] = {{"uint", c["uint"].asBool(), iU, !iU || gotU == wantLL},
                  {"int", c["int"].asBool(), iI, !iI || gotI == wantLL},
                  {"int64", c["int64"].asBool(), i64, !i64 || got64 == wantLL},
                  {"double", c["float"].asBool(), iD, !iD || std::fabs(gotD - strtod(s.c_str(), nullptr)) == 0},
                  {"float", c["float"].asBool(), iF, true},
                  {"bool", c["boolean"].asBool(), iB, true}};
      for (auto& t : tys) {
        std::string tn = t.name;
        if (t.model && !t.impl) T.mismatch(tn + ": a valid value is rejected", line);
        else if (t.model && t.impl && !t.valueOk) T.mismatch(tn + ": accepted with a different value", line);
        else if (!t.model && t.impl) {
          bool isFloatTy = tn == "double" || tn == "float";
          // catalogued leniency classes of the std::sto* based readers
          bool digitPrefix = !s.empty() && (isdigit((unsigned char)s[0]) || (s.size() > 1 && s[0] == '-' && isdigit((unsigned char)s[1])) ||
                                            (isFloatTy && s[0] == '.' ) || (isFloatTy && s.size() > 1 && s[0] == '-' && s[1] == '.'));
          if (isFloatTy && (s == "nan" || s == "inf" || s.rfind("0x", 0) == 0)) T.lenient("float-nonfinite-or-hex", tn + " " + s);
          else if (isFloatTy && allIn(s, "-0123456789.e") && digitPrefix && std::isfinite(strtod(s.c_str(), nullptr)) &&
                   [&] { char* e = nullptr; strtod(s.c_str(), &e); return *e == 0; }()) {
            // ".5", "5.", "1e3": finite decimal notations the documentation neither names nor excludes
          }
          else if (tn == "int64" && haveLL && allIn(s.substr(1), "0123456789")) T.lenient("int64-read-with-stoull-wraps", tn + " " + s);
          // prefix semantics only: something FOLLOWS the number that was read.  A pure (signed) digit string that the
          // model rejects is out of range - accepting it means the value was narrowed or wrapped: a plain mismatch
          else if (digitPrefix && !(haveLL && allIn(s.substr(1), "0123456789"))) T.lenient("number-prefix-parse", tn + " " + s);
          else T.mismatch(tn + ": an invalid value is accepted", line);
        }
      }
    } else if (kind == "S") {
      std::string s = str(c["s"]);
      if (c["unspecified"].asBool() || s.find('+') != std::string::npos || s.find('-') != std::string::npos) { T.agree++; continue; }
      bool mSize = c["size"].asBool(), mPct = c["pct"].asBool(), mBare = c["bare"].asBool();
      __int128 exact = 0; bool frac = false; bool fits = false;
      if (mSize) fits = exactSize(c["comps"], exact, frac);
      int64_t got = -12345;
      bool impl = Oomd::Util::parseSize(s, &got) == 0;
      if (mSize && fits) {
        if (!impl) T.mismatch("parseSize rejects a documented size", line);
        else {
          __int128 d = (__int128)got - exact;
          bool exactOk = frac ? (d == 0 || d == 1) : d == 0;
          if (!exactOk) {
            if (exact > ((__int128)1 << 53)) T.lenient("size-beyond-2^53-rounded-through-double", s);
            else T.mismatch("parseSize value differs from the exact byte count", line);
          }
        }
      } else if (mSize && !fits) {
        if (impl) T.lenient("size-overflow-accepted", s);
      } else if (impl) {
        if (s.empty() || allIn(s, " ")) T.lenient("size-empty-string-accepted", "'" + s + "'");
        else if (allIn(s, "0123456789.eExXaAbBcCdDfFnNiI kKmMgGtT") && s.find('%') == std::string::npos) T.lenient("size-strtold-grammar", s);
        else T.mismatch("parseSize accepts a string outside the documented grammar", line);
      }
      // threshold reading: percent of a total, bare megabytes, or a size
      const int64_t total = (int64_t)3 << 33; // 24 GiB, above 2^32
      int64_t tgot = -1;
      bool timpl = Oomd::Util::parseSizeOrPercent(s, &tgot, total) == 0;
      if (mPct) {
        long n = strtol(s.c_str(), nullptr, 10);
        if (!timpl) T.mismatch("parseSizeOrPercent rejects N%", line);
        else if (tgot != (int64_t)((__int128)total * n / 100)) T.mismatch("parseSizeOrPercent: wrong value for N%", line);
      } else if (mBare) {
        __int128 mb = 0; bool ok = s.size() <= 18;
        for (char ch : s) mb = mb * 10 + (ch - '0');
        ok = ok && (mb << 20) < ((__int128)1 << 63);
        if (ok && !timpl) T.mismatch("parseSizeOrPercent rejects a bare number", line);
        else if (ok && tgot != (int64_t)(mb << 20)) T.mismatch("parseSizeOrPercent: bare number is not megabytes", line);
        else if (!ok && timpl) T.lenient("bare-megabytes-overflow-accepted", s);
      } else if (mSize && fits) {
        if (!timpl) T.mismatch("parseSizeOrPercent rejects a documented size", line);
      } else if (timpl && !(mSize && !fits)) {
        if (!s.empty() && s.back() == '%' && s.find(' ') != std::string::npos) { /* blanks around N%: unspecified */ }
        else if (!s.empty() && s.back() == '%' && isdigit((unsigned char)s[0])) T.lenient("percent-prefix-parse", s);
        else if (s.empty() || allIn(s, " ")) T.lenient("size-empty-string-accepted", "'" + s + "'");
        else if (isdigit((unsigned char)s[0]) && allIn(s, "0123456789.eExXaAbBcCdDfFnNiI kKmMgGtT")) T.lenient("size-strtold-grammar", s);
        else if (allIn(s, "0123456789.eExXaAbBcCdDfFnNiI kKmMgGtT") ) T.lenient("size-strtold-grammar", s);
        else T.mismatch("parseSizeOrPercent accepts a string outside the documented grammar", line);
      }
    } else if (kind == "I") {
      IR::Root root;
      std::vector<std::pair<std::string, int>> want;
      int ri = 0;
      auto fill = [&](IR::Plugin& o, const Json::Value& p, const char* goodName) {
        std::string k = p["kind"].asString();
        o.name = k == "unknown" ? "no_such_plugin" : k == "noname" ? "" : goodName;
        if (p["hasId"].asBool()) o.args["id"] = p["tag"].asString();
        if (p["extra"].asBool()) o.args["bogus_argument"] = "1";
        std::string d = str(p["delay"]);
        if (d != "~") o.args["post_action_delay"] = d;
        want.emplace_back(p["tag"].asString(), d == "~" ? -1 : atoi(d.c_str()));
      };
      for (auto& rs : c["ir"]) {
        IR::Ruleset o;
        o.name = rs["named"].asBool() ? "r" + std::to_string(ri) : "";
        ri++;
        o.silence_logs = rs["silence"].asString();
        std::string pad = str(rs["pad"]), pht = str(rs["pht"]);
        if (pad != "~") o.post_action_delay = pad;
        if (pht != "~") o.prekill_hook_timeout = pht;
        int gi = 0;
        for (auto& g : rs["groups"]) {
          IR::DetectorGroup dg;
          dg.name = g["named"].asBool() ? "g" + std::to_string(gi) : "";
          gi++;
          for (auto& d : g["dets"]) { IR::Detector x; fill(x, d, verif::kDetName); dg.detectors.push_back(x); }
          o.dgs.push_back(dg);
        }
        for (auto& a : rs["acts"]) { IR::Action x; fill(x, a, verif::kActName); o.acts.push_back(x); }
        root.rulesets.push_back(o);
      }
      verif::initLog().clear();
      std::unique_ptr<Oomd::Engine::Engine> engine;
      bool threw = !accepts([&] { engine = Oomd::Config2::compile(root, Oomd::PluginConstructionContext("/fs")); });
      bool impl = engine != nullptr;
      bool model = c["accept"].asBool();
      auto gotInit = verif::initLog();
      if (threw) T.mismatch("compile() let an exception escape", line);
      else if (model && !impl) T.mismatch("a valid configuration is rejected", line);
      else if (!model && impl) {
        // which leniency made it through?
        bool onlyPrefix = true;
        (void)onlyPrefix;
        T.lenient("number-prefix-parse-in-config", line.substr(0, 0) + "IR with a value such as 3x / 1.5 / 1e3 accepted");
      }
      // the same rulesets offered as a run-time drop-in on a base that opens everything up
      {
        IR::Root base;
        for (int i = 0; i < 2; i++) {
          IR::Ruleset b; b.name = "r" + std::to_string(i);
          IR::DetectorGroup dg; dg.name = "bg"; IR::Detector d; d.name = verif::kDetName; d.args["id"] = "b.d"; dg.detectors.push_back(d); b.dgs.push_back(dg);
          IR::Action a; a.name = verif::kActName; a.args["id"] = "b.a"; b.acts.push_back(a);
          b.dropin.detectorgroups_enabled = b.dropin.actiongroup_enabled = true;
          base.rulesets.push_back(b);
        }
        std::optional<Oomd::Engine::DropInUnit> unit;
        bool dthrew = !accepts([&] { unit = Oomd::Config2::compileDropIn(base, root, Oomd::PluginConstructionContext("/fs")); });
        bool dimpl = unit.has_value();
        bool dmodel = c["acceptAsDropin"].asBool();
        if (dthrew) T.mismatch("compileDropIn() let an exception escape", line);
        else if (dmodel && !dimpl) T.mismatch("a valid drop-in is rejected", line);
        else if (!dmodel && dimpl) {
          bool namesOk = true;
          for (auto& rs : c["ir"]) namesOk = namesOk && rs["named"].asBool();
          if (namesOk) T.lenient("number-prefix-parse-in-config", "drop-in with a value such as 3x / 1.5 / 1e3 accepted");
          else T.mismatch("a drop-in containing a ruleset without a (known) target is accepted", line);
        } else if (dmodel && dimpl && unit->rulesets.size() != c["ir"].size()) T.mismatch("accepted drop-in lost a ruleset", line);
      }
      if (model && impl && !threw) {
        auto got = gotInit;
        std::vector<std::pair<std::string, int>> w2;
        for (auto& t : c["instances"]) for (auto& w : want) if (w.first == t.asString()) { w2.push_back(w); break; }
        if (got != w2) T.mismatch("accepted, but the plugin instances differ from the configuration (order or arguments)", line);
      }
    } else if (kind == "R") {
      std::string lit = str(c["s"]);
      std::string doc = "{\"rulesets\":[{\"name\":\"r0\",\"detectors\":[[\"g0\",{\"name\":\"verif_det\",\"args\":{\"id\":\"d0\",\"note\":" + lit +
          "}}]],\"actions\":[{\"name\":\"verif_act\",\"args\":{\"id\":\"a0\"}}]}]}";
      verif::initLog().clear();
      verif::lastNote() = "<none>";
      std::unique_ptr<IR::Root> ir;
      std::unique_ptr<Oomd::Engine::Engine> engine;
      std::string seen;
      bool ok = accepts([&] { Oomd::Config2::JsonConfigParser p; ir = p.parse(doc);
                              for (auto& rs : ir->rulesets) for (auto& g : rs.dgs) for (auto& d : g.detectors) seen = d.args.at("note"); });
      if (!ok) T.mismatch("a JSON number as argument value is not accepted: " + doc, line);
      else {
        double want = strtod(lit.c_str(), nullptr), got = strtod(seen.c_str(), nullptr);
        char* e = nullptr; strtod(seen.c_str(), &e);
        if (*e != 0 || want != got) T.mismatch("JSON number " + lit + " reaches the plugin as \"" + seen + "\"", line);
      }
    } else if (kind == "J") {
      // a well-formed document with one position replaced by a value of another JSON shape
      std::string pos = c["pos"].asString(), shape = c["shape"].asString();
      auto val = [&](const std::string& expected) -> std::string {
        if (shape == "expected") return expected;
        if (shape == "null") return "null";
        if (shape == "bool") return "true";
        if (shape == "number") return "7";
        if (shape == "string") return "\"zzz\"";
        if (shape == "array") return "[1]";
        if (shape == "object") return "{\"k\":1}";
        return ""; // missing
      };
      auto member = [&](const std::string& key, const std::string& p, const std::string& expected) -> std::string {
        if (pos != p) return "\"" + key + "\":" + expected;
        std::string v = val(expected);
        return v.empty() ? std::string("\"zz_unused\":0") : "\"" + key + "\":" + v;
      };
      auto elem = [&](const std::string& p, const std::string& expected) -> std::string {
        if (pos != p) return expected;
        std::string v = val(expected);
        return v.empty() ? std::string("") : v;
      };
      std::string plugD = "{" + member("name", "plugin.name", "\"verif_det\"") + "," +
          member("args", "plugin.args", "{" + member("id", "arg.value", "\"d0\"") + "}") + "}";
      std::string plugin = elem("plugin", plugD);
      std::string group = elem("group", "[" + elem("group.name", "\"g0\"") + (plugin.empty() ? "" : "," + plugin) + "]");
      std::string ruleset = "{" + member("name", "ruleset.name", "\"r0\"") + "," +
          member("detectors", "detectors", "[" + group + "]") + "," +
          member("actions", "actions", "[{\"name\":\"verif_act\",\"args\":{\"id\":\"a0\"}}]") + "," +
          member("drop-in", "drop-in", "{" + member("detectors", "drop-in.flag", "true") + "}") + "," +
          member("post_action_delay", "post_action_delay", "\"3\"") + "," +
          member("silence-logs", "silence-logs", "\"engine\"") + "}";
      std::string doc = elem("root", "{" + member("rulesets", "rulesets", "[" + elem("ruleset", ruleset) + "]") + "}");
      verif::initLog().clear();
      std::unique_ptr<IR::Root> ir;
      std::unique_ptr<Oomd::Engine::Engine> engine;
      bool parsed = accepts([&] { Oomd::Config2::JsonConfigParser p; ir = p.parse(doc); });
      bool threw = false;
      if (parsed && ir) threw = !accepts([&] { engine = Oomd::Config2::compile(*ir, Oomd::PluginConstructionContext("/fs")); });
      bool impl = engine != nullptr;
      bool honoured = impl && verif::initLog().size() == 2 && verif::initLog()[0].first == "d0" && verif::initLog()[1].first == "a0";
      std::string verdict = c["verdict"].asString();
      if (pos == "ruleset" && shape == "missing") honoured = impl && verif::initLog().empty();
      if (pos == "rulesets" && shape == "missing") honoured = impl && verif::initLog().empty();
      if (threw) T.mismatch("compile() let an exception escape on " + doc, line);
      else if (verdict == "accept" && !impl) T.mismatch("JSON position/shape that must be usable is rejected: " + doc, line);
      else if (verdict == "accept" && !honoured) T.mismatch("accepted but not honoured: " + doc, line);
      else if (verdict == "reject" && impl) T.lenient("json-shape-accepted:" + pos + "=" + shape, doc);
    }
    if (T.nbad == before) T.agree++;
  }
  std::vector<std::string> kn;
  for (auto& [k, n] : T.known) kn.push_back(J().str("key", k).num("count", n).str("example", T.knownExample[k]).done());
  std::ofstream out(argv[2]);
  out << J().num("cases", T.cases).num("agree", T.agree).num("mismatches", T.nbad).raw("examples", J::arr(T.bad))
             .raw("lenient", J::arr(kn)).done() << "\n";
  out.close();
  _exit(0);
}
