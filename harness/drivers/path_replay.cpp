// C16 replay: every case enumerated by TLC from MC_CgroupPath.tla (with the specification's result)
// is evaluated on the REAL CgroupPath / Fs::glob / PluginArgParser; any difference is a violation.
// usage: path_replay <cases.ndjson> <result.json>
#include <json/json.h>
#include <sys/socket.h>
#include <sys/stat.h>
#include <sys/un.h>
#include <cstring>
#include <unistd.h>
#include <fstream>
#include <iostream>
#include <map>
#include <set>
#include <sstream>

#include "../common/evlog.h"
#include "../common/simfs.h"
#include "oomd/PluginConstructionContext.h"
#include "oomd/include/CgroupPath.h"
#include "oomd/OomdContext.h"
#include "oomd/engine/PrekillHook.h"
#include "oomd/util/PluginArgParser.h"

using Oomd::CgroupPath;

static std::string str(const Json::Value& chars) {
  std::string s;
  for (auto& c : chars) s += c.asString();
  return s;
}
static std::vector<std::string> comps(const Json::Value& parts) {
  std::vector<std::string> v;
  for (auto& p : parts) v.push_back(str(p));
  return v;
}
static std::string joinPath(const Json::Value& path) {
  std::string s;
  for (auto& p : path) { if (!s.empty()) s += "/"; s += str(p); }
  return s;
}

int main(int argc, char** argv) {
  if (argc < 3) return 2;
  verif::installAbortHandlers();
  std::ifstream in(argv[1]);
  std::string line;
  long n = 0, nU = 0, nH = 0, nG = 0, dotEntries = 0, nHookObj = 0;
  std::string dotExample;
  std::vector<std::string> bad;
  std::map<std::string, std::unique_ptr<verif::SimFs>> trees;
  Json::CharReaderBuilder rb;
  auto fail = [&](const std::string& what, const std::string& caseLine) {
    if (bad.size() < 20) bad.push_back(verif::J().str("what", what).raw("case", caseLine).done());
    else bad.push_back("");
  };
  while (std::getline(in, line)) {
    if (line.empty()) continue;
    Json::Value c;
    std::string errs;
    std::istringstream ss(line);
    if (!Json::parseFromStream(rb, ss, &c, &errs)) { std::cerr << "bad case line\n"; return 2; }
    n++;
    std::string kind = c["kind"].asString();
    if (kind == "U") {
      nU++;
      std::string s = str(c["s"]);
      CgroupPath p("/fs", s);
      if (p.relativePathParts() != comps(c["parts"])) fail("relativePathParts", line);
      if (p.relativePath() != str(c["rel"])) fail("relativePath", line);
      if (p.absolutePath() != str(c["abs"])) fail("absolutePath", line);
      if (p.isRoot() != c["root"].asBool()) fail("isRoot", line);
      CgroupPath q("/fs/", s);
      if (!(p == q) || q.absolutePath() != p.absolutePath()) fail("fs trailing slash", line);
      CgroupPath canon("/fs", str(c["rel"]));
      if (!(canon == p) || (canon != p)) fail("equality with canonical form", line);
      if (std::hash<CgroupPath>{}(canon) != std::hash<CgroupPath>{}(p)) fail("hash", line);
      CgroupPath other("/fs", s + "/zz");
      if ((other == p) || std::hash<CgroupPath>{}(other) == std::hash<CgroupPath>{}(p)) fail("hash/eq of a different path", line);
      for (const char* x : {"a", "*", "a.b"}) {
        auto ch = p.getChild(x);
        if (!(ch.getParent() == p)) fail("getChild/getParent", line);
        if (ch.absolutePath() != p.absolutePath() + "/" + x) fail("getChild abs", line);
      }
      auto set = Oomd::PluginArgParser::parseCgroup(Oomd::PluginConstructionContext("/fs"), s);
      if (s.empty() ? !set.empty() : (set.size() != 1 || !(*set.begin() == p))) fail("parseCgroup", line);
    } else if (kind == "H") {
      nH++;
      CgroupPath path("/fs", str(c["s"])), pat("/fs", str(c["t"]));
      if (path.hasDescendantWithPrefixMatching(pat) != c["match"].asBool()) fail("hasDescendantWithPrefixMatching", line);
      // descending by an arbitrary string
      auto ch = path.getChild(str(c["t"]));
      CgroupPath joined("/fs", str(c["s"]) + "/" + str(c["t"]));
      if (ch.relativePathParts() != comps(c["childParts"])) fail("getChild parts", line);
      if (ch.absolutePath() != str(c["childAbs"])) fail("getChild absolutePath", line);
      if (ch.isRoot() != c["childRoot"].asBool()) fail("getChild isRoot", line);
      if (!(ch == joined) || std::hash<CgroupPath>{}(ch) != std::hash<CgroupPath>{}(joined)) fail("getChild equals the joined path", line);
      if (!ch.isRoot() && !joined.isRoot() && !(ch.getParent() == joined.getParent())) fail("getChild parent", line);
      // the USER of the prefix match: a prekill hook configured with the pattern t decides through
      // PrekillHook::canRunOnCgroup whether it runs for the (existing) cgroup s
      {
        static verif::SimFs hookFs;
        static Oomd::OomdContext hookCtx;
        struct ProbeHook : Oomd::Engine::PrekillHook {
          std::unique_ptr<Oomd::Engine::PrekillHookInvocation> fire(const Oomd::CgroupContext&, const Oomd::ActionContext&) override { return nullptr; }
        };
        CgroupPath hp(hookFs.root(), str(c["s"]));
        bool plain = !str(c["t"]).empty();
        std::string rel;
        for (auto& part : hp.relativePathParts()) { if (part == "." || part == "..") plain = false; rel += (rel.empty() ? "" : "/") + part; }
        if (plain) {
          if (!rel.empty()) hookFs.mkcg(rel);
          auto cg = Oomd::CgroupContext::make(hookCtx, hp);
          ProbeHook h;
          if (cg && h.initPlugin({{"cgroup", str(c["t"])}}, Oomd::PluginConstructionContext(hookFs.root())) == 0) {
            nHookObj++;
            if (h.canRunOnCgroup(*cg) != c["match"].asBool()) fail("PrekillHook::canRunOnCgroup", line);
          }
        }
      }
    } else if (kind == "G") {
      nG++;
      Json::StreamWriterBuilder wb; wb["indentation"] = "";
      std::string key = Json::writeString(wb, c["dirs"]) + Json::writeString(wb, c["files"]);
      auto& fs = trees[key];
      if (!fs) {
        fs = std::make_unique<verif::SimFs>();
        for (auto& d : c["dirs"]) fs->mkcg(joinPath(d));
        for (auto& f : c["files"]) {
          std::string rel = joinPath(f);
          auto pos = rel.rfind('/');
          std::string dir = pos == std::string::npos ? "" : rel.substr(0, pos);
          if (!dir.empty()) fs->mkcg(dir);
          // "a file" is anything that is not a directory: some are unix sockets or FIFOs (whose st_mode shares bits with
          // S_IFDIR) instead of regular files
          std::string base = pos == std::string::npos ? rel : rel.substr(pos + 1);
          std::string abs = fs->root() + "/" + rel;
          size_t h = (std::hash<std::string>{}(key) + nG) % 3;   // per tree: all its files regular, sockets, or FIFOs
          if (h == 0 && abs.size() < 100) {
            int sfd = ::socket(AF_UNIX, SOCK_STREAM, 0);
            sockaddr_un a{}; a.sun_family = AF_UNIX; strncpy(a.sun_path, abs.c_str(), sizeof(a.sun_path) - 1);
            if (sfd < 0 || ::bind(sfd, (sockaddr*)&a, sizeof a) != 0) fs->write(dir, base, "x");
            if (sfd >= 0) ::close(sfd);
          } else if (h == 1 || (h == 0 && abs.size() >= 100)) { if (::mkfifo(abs.c_str(), 0644) != 0) fs->write(dir, base, "x"); }
          else fs->write(dir, base, "x");
        }
        // a sibling of the fs root whose name extends the root's name
        mkdir((fs->root() + "z").c_str(), 0755);
        mkdir((fs->root() + "z/a").c_str(), 0755);
      }
      CgroupPath pat(fs->root(), str(c["s"]));
      std::set<std::string> got, want;
      bool dup = false;
      for (auto& r : pat.resolveWildcard()) {
        if (r.cgroupFs() != fs->root()) fail("resolveWildcard cgroupFs", line);
        dup |= !got.insert(r.relativePath()).second;
      }
      for (auto& r : c["res"]) want.insert(joinPath(r));
      if (got != want) {
        // classify: extra results that are the "." / ".." directory entries (matched by a wildcard
        // component with a leading dot) are one specific, separately reported finding
        bool onlyDotEntries = true;
        for (auto& w : want) if (!got.count(w)) onlyDotEntries = false;
        for (auto& g : got) {
          if (want.count(g)) continue;
          bool hasDot = false;
          std::stringstream cs(g); std::string comp;
          while (std::getline(cs, comp, '/')) if (comp == "." || comp == "..") hasDot = true;
          if (!hasDot) onlyDotEntries = false;
        }
        if (onlyDotEntries) { dotEntries++; if (dotExample.empty()) dotExample = line; }
        else {
          std::string g; for (auto& x : got) g += x + ",";
          fail("resolveWildcard got {" + g + "}", line);
        }
      }
      (void)dup;
      // the same pattern resolved through OomdContext (what plugins use): exactly the same directories
      {
        Oomd::OomdContext octx;
        std::set<std::string> viaCtx;
        for (auto& cc : octx.addToCacheAndGet(std::unordered_set<CgroupPath>{pat})) viaCtx.insert(cc.get().cgroup().relativePath());
        if (viaCtx != got) {
          std::string g; for (auto& x : viaCtx) g += x + ",";
          std::string h; for (auto& x : got) h += x + ",";
          fail("OomdContext resolves {" + g + "} but the pattern resolves to {" + h + "}", line);
        }
      }
    }
  }
  std::ofstream out(argv[2]);
  size_t nb = bad.size();
  std::vector<std::string> shown;
  for (auto& b : bad) if (!b.empty()) shown.push_back(b);
  out << verif::J().num("cases", n).num("unary", nU).num("hook", nH).num("hook_objects", nHookObj).num("glob", nG).num("mismatches", (long long)nb).num("glob_dot_entries", dotEntries).raw("glob_dot_example", dotExample.empty() ? "null" : dotExample)
             .raw("examples", verif::J::arr(shown)).done()
      << "\n";
  out.close();
  fflush(stdout);
  _exit(0);
}
