// Conformance / robustness driver for C10: the REAL main-loop body (Oomd::updateContext, Engine::prerun,
// Engine::runOnce) with every core plugin configured runs on a simulated cgroupfs and /proc.  A baseline
// run counts the file accesses of the tick; then the same scenario is re-run, each time in a forked
// child, with one fault: a file absent / empty / unreadable for the whole tick, or a cgroup removed or
// re-created right before the k-th file access, or directory entries without d_type.  A child that
// crashes, lets an exception escape, trips a sanitizer or hangs leaves a trace ending in "Abort".
// usage: tick_driver <trace.ndjson> <seed> <nScenarios> <stride> [firstScenario]
#include <fcntl.h>
#include <signal.h>
#include <sys/stat.h>
#include <cstring>
#include <sys/wait.h>
#include <unistd.h>
#include <cstdio>
#include <cstdlib>
#include <map>
#include <random>
#include <set>
#include <sstream>

#include "../common/evlog.h"
#include "../common/interpose.h"
#include "../common/simfs.h"
#include "../common/vclock.h"

#define private public
#include "oomd/Oomd.h"
#undef private
#include "oomd/Log.h"
#include "oomd/PluginConstructionContext.h"
#include "oomd/Stats.h"
#include "oomd/config/ConfigCompiler.h"
#include "oomd/config/JsonConfigParser.h"
#include "oomd/engine/Engine.h"

using namespace verif;
struct Rng {
  std::mt19937_64 g;
  explicit Rng(uint64_t s) : g(s) {}
  int upto(int n) { return (int)(g() % (uint64_t)n); }
  bool chance(int pct) { return upto(100) < pct; }
  template <class T> const T& pick(const std::vector<T>& v) { return v[upto((int)v.size())]; }
};

static const char* kConfig = R"JSON({
 "rulesets": [
  {"name": "mem", "post_action_delay": "0",
   "detectors": [["rising", {"name": "pressure_rising_beyond", "args": {"cgroup": "w*", "resource": "memory", "threshold": "5", "duration": "0", "fast_fall_ratio": "0"}}],
                 ["above", {"name": "memory_above", "args": {"cgroup": "w*", "threshold": "1", "duration": "0"}}]],
   "actions": [{"name": "kill_by_memory_size_or_growth", "args": {"cgroup": "w*", "recursive": "true", "always_continue": "true"}},
               {"name": "kill_by_swap_usage", "args": {"cgroup": "w*", "threshold": "0", "always_continue": "true"}},
               {"name": "kill_by_pressure", "args": {"cgroup": "w*/*", "resource": "io", "kernelkill": "true"}}]},
  {"name": "io", "post_action_delay": "0",
   "detectors": [["p", {"name": "pressure_above", "args": {"cgroup": "w*", "resource": "io", "threshold": "5", "duration": "0"}},
                       {"name": "memory_reclaim", "args": {"cgroup": "w*", "duration": "10"}}],
                 ["s", {"name": "swap_free", "args": {"threshold_pct": "100"}},
                       {"name": "nr_dying_descendants", "args": {"cgroup": "w*", "count": "0", "lte": "false"}},
                       {"name": "exists", "args": {"cgroup": "w*,nope"}}]],
   "actions": [{"name": "kill_by_io_cost", "args": {"cgroup": "w*", "always_continue": "true"}},
               {"name": "kill_by_pg_scan", "args": {"cgroup": "w*", "recursive": "true"}}]},
  {"name": "senpai", "detectors": [["e", {"name": "exists", "args": {"cgroup": "w1"}}]],
   "actions": [{"name": "senpai", "args": {"cgroup": "w*", "limit_min_bytes": "4096", "interval": "1"}},
               {"name": "dump_cgroup_overview", "args": {"cgroup": "w*", "always": "true"}}]},
  {"name": "percg", "cgroup": "w*", "post_action_delay": "0",
   "detectors": [["m", {"name": "memory_above", "args": {"cgroup": "w*", "threshold": "1", "duration": "0"}}]],
   "actions": [{"name": "kill_by_memory_size_or_growth", "args": {"recursive": "false", "dry": "true"}}]}
 ]
})JSON";

// variant 1: every plugin addresses the second level only ("w2/*"), so the parent w2 is never looked at before one
// of its children needs it (memory protection / effective usage are normalised against the parent)
static const char* kConfigDeep = R"JSON({
 "rulesets": [
  {"name": "deep", "post_action_delay": "0",
   "detectors": [["above", {"name": "memory_above", "args": {"cgroup": "w2/*", "threshold": "1", "duration": "0"}}]],
   "actions": [{"name": "dump_cgroup_overview", "args": {"cgroup": "w2/*", "always": "true"}},
               {"name": "kill_by_swap_usage", "args": {"cgroup": "w2/*", "threshold": "0", "biased_swap_kill": "true", "dry": "true", "always_continue": "true"}},
               {"name": "kill_by_memory_size_or_growth", "args": {"cgroup": "w2/*", "dry": "true"}}]}
 ]
})JSON";

struct Scenario {
  SimFs fs;
  std::string proc;
  std::map<int, std::string> pidHome;
  std::vector<std::string> cgs = {"w1", "w2", "w2/c1", "w2/c2", "x"};
  Rng r;
  explicit Scenario(uint64_t seed) : r(seed) { proc = fs.base() + "/proc"; }
  void renderCg(const std::string& p, int tick) {
    fs.mkcg(p);
    int k = 3 + r.upto(20);
    fs.write(p, "memory.current", std::to_string((long long)k * 1048576 * 8) + "\n");
    fs.write(p, "memory.low", "0\n"); fs.write(p, "memory.min", r.chance(30) ? "max\n" : "0\n");
    fs.write(p, "memory.high", "max\n"); fs.write(p, "memory.max", r.chance(50) ? "max\n" : "1073741824\n");
    fs.write(p, "memory.swap.current", std::to_string((long long)k * 4096) + "\n"); fs.write(p, "memory.swap.max", "max\n");
    fs.write(p, "memory.stat", "anon " + std::to_string(k * 1048576LL) + "\nfile " + std::to_string(k * 2097152LL) + "\nshmem 0\npgscan " +
                                   std::to_string(100 * tick + k) + "\ninactive_file 4096\nactive_file 4096\n");
    fs.write(p, "memory.pressure", "some avg10=20.00 avg60=10.00 avg300=1.00 total=" + std::to_string(100000 * tick) + "\nfull avg10=" + std::to_string(10 + k) +
                                       ".00 avg60=9.00 avg300=1.00 total=" + std::to_string(50000 * tick) + "\n");
    fs.write(p, "io.pressure", "some avg10=15.00 avg60=10.00 avg300=1.00 total=" + std::to_string(70000 * tick) + "\nfull avg10=" + std::to_string(8 + k) + ".00 avg60=9.00 avg300=1.00 total=1\n");
    fs.write(p, "io.stat", "8:0 rbytes=" + std::to_string(4096LL * tick * k) + " wbytes=1 rios=2 wios=3 dbytes=0 dios=0\n");
    fs.write(p, "cgroup.stat", "nr_descendants 1\nnr_dying_descendants " + std::to_string(r.upto(3)) + "\n");
    fs.write(p, "cgroup.events", "populated 1\nfrozen 0\n");
    fs.write(p, "memory.oom.group", "0\n");
    fs.write(p, "pids.current", "2\n");
    fs.write(p, "cgroup.freeze", "0\n"); fs.write(p, "cgroup.kill", "");
    fs.write(p, "memory.reclaim", ""); fs.write(p, "memory.high.tmp", "max 0\n");
    if (tick == 1) {
      int base = 100 + 10 * (int)(std::hash<std::string>{}(p) % 50);
      fs.write(p, "cgroup.procs", std::to_string(base) + "\n" + std::to_string(base + 1) + "\n");
      pidHome[base] = p; pidHome[base + 1] = p;
    }
  }
  void render(int tick) {
    for (auto& c : cgs) renderCg(c, tick);
    std::string pr = proc;
    mkdir(pr.c_str(), 0755); mkdir((pr + "/pressure").c_str(), 0755); mkdir((pr + "/sys").c_str(), 0755); mkdir((pr + "/sys/vm").c_str(), 0755);
    fs.writeAbs(pr + "/meminfo", "MemTotal:       16384000 kB\nMemFree:         1000000 kB\nSwapTotal:       2097148 kB\nSwapFree:        1000000 kB\n");
    fs.writeAbs(pr + "/vmstat", "nr_free_pages 1\npgscan_kswapd 5\npswpin 10\npswpout " + std::to_string(100 * tick) + "\n");
    fs.writeAbs(pr + "/swaps", "Filename\t\t\t\tType\t\tSize\tUsed\tPriority\n/dev/sda2                               partition\t2097148\t1000000\t-2\n");
    fs.writeAbs(pr + "/pressure/memory", "some avg10=1.00 avg60=1.00 avg300=1.00 total=1\nfull avg10=1.00 avg60=1.00 avg300=1.00 total=1\n");
    fs.writeAbs(pr + "/pressure/io", "some avg10=1.00 avg60=1.00 avg300=1.00 total=1\nfull avg10=1.00 avg60=1.00 avg300=1.00 total=1\n");
    fs.writeAbs(pr + "/sys/vm/swappiness", "60\n");
  }
};

struct Fault { std::string kind; std::string file; int k = 0; std::string cg; int variant = 0; };

static void onAlarm(int) {
  evEmitRaw("{\"e\":\"Abort\",\"why\":\"hang\",\"detail\":\"watchdog\"}");
  evFlush();
  _exit(0);
}

// one execution of the scenario (2 ticks) with an optional fault in the second tick; returns #accesses of tick 2
static int execute(uint64_t seed, int scn, const Fault& f, std::vector<std::string>* accessLog) {
  Scenario S(seed * 2654435761ULL + scn);
  auto& I = ip();
  I.active = true; I.base = S.fs.base(); I.procRedirect = S.proc; I.clearDType = (f.kind == "nodtype");
  vclockEnable(true); vclockSet(1000000);
  S.render(1);
  Oomd::Config2::JsonConfigParser parser;
  auto ir = parser.parse(f.variant == 1 ? kConfigDeep : kConfig);
  Oomd::PluginConstructionContext pcc(S.fs.root());
  auto engine = Oomd::Config2::compile(*ir, pcc);
  if (!engine) { fprintf(stderr, "config did not compile\n"); _exit(3); }
  std::unordered_map<std::string, Oomd::DeviceType> devs{{"8:0", Oomd::DeviceType::SSD}};
  Oomd::IOCostCoeffs co{1, 1, 1, 1, 0, 0};
  Oomd::Oomd oomd(std::move(ir), std::move(engine), 5, S.fs.root(), "", devs, co, co);
  int counter = 0; bool inFault = false; bool busy = false;
  I.onKill = [&](int pid, int sig) {
    evEmit(J().str("e", "Kill").num("pid", pid).num("sig", sig).boolean("ok", true));
    auto it = S.pidHome.find(pid);
    if (it != S.pidHome.end() && S.fs.exists(it->second)) {
      std::string cur = S.fs.read(it->second, "cgroup.procs"), out; std::stringstream ss(cur); std::string ln;
      while (std::getline(ss, ln)) if (ln != std::to_string(pid)) out += ln + "\n";
      S.fs.write(it->second, "cgroup.procs", out);
    }
    return KillOutcome{0, 0};
  };
  I.onPidfdOpen = [&](int) { return -ESRCH; };
  I.onOpened = [&](const std::string& path, int flags) {
    if (busy || (flags & O_ACCMODE) != O_RDONLY) return;
    auto pos = path.rfind('/');
    if (path.substr(pos + 1) != "cgroup.procs") return;
    busy = true;
    std::string rel = path.size() > S.fs.root().size() + 13 ? path.substr(S.fs.root().size() + 1, pos - S.fs.root().size() - 1) : "";
    std::vector<long long> pids; std::stringstream ss(S.fs.read(rel, "cgroup.procs")); std::string ln;
    while (std::getline(ss, ln)) if (!ln.empty()) pids.push_back(atoll(ln.c_str()));
    evEmit(J().str("e", "ProcsOpen").raw("p", pathJson(rel)).raw("pids", J::numArr(pids)));
    busy = false;
  };
  I.onOpen = [&](const std::string& path, int) -> int {
    if (!inFault || busy) return 0;
    counter++;
    if (accessLog) accessLog->push_back(path.substr(S.fs.base().size()));
    auto pos = path.rfind('/');
    std::string file = path.substr(pos + 1);
    if ((f.kind == "absent" || f.kind == "empty" || f.kind == "unreadable" || f.kind == "readfail") && file == f.file)
      return f.kind == "absent" ? ENOENT : f.kind == "unreadable" ? EACCES : f.kind == "empty" ? -1 : -2;
    if ((f.kind == "remove" || f.kind == "recreate") && counter == f.k) {
      busy = true;
      S.fs.rmcg(f.cg);
      if (f.kind == "recreate") { S.renderCg(f.cg, 2); }
      busy = false;
    }
    return 0;
  };
  signal(SIGALRM, onAlarm);
  alarm(30);
  for (int tick = 1; tick <= 2; tick++) {
    // variant 0: faults in the second tick (warm caches); variant 1: in the FIRST tick (nothing cached yet)
    if (tick == 2) { vclockAdvance(5000); busy = true; S.render(2); busy = false; }
    if (tick == (f.variant == 1 ? 1 : 2)) { inFault = true; counter = 0; }
    if (tick == 2 && f.variant == 1 && accessLog) inFault = false;   // the baseline of variant 1 lists tick 1 only
    evEmit(J().str("e", "TickBegin").num("tick", tick));
    oomd.updateContext();
    oomd.engine_->prerun(oomd.ctx_);
    oomd.engine_->runOnce(oomd.ctx_);
    evEmit(J().str("e", "TickEnd").num("tick", tick));
  }
  // "the affected statistic is reported as unavailable": with the file-level fault still in force, ask the REAL
  // accessors that are fed by the faulted file, on a fresh tick (nothing cached), and log what they answer
  if (f.kind == "absent" || f.kind == "empty" || f.kind == "unreadable" || f.kind == "readfail") {
    oomd.ctx_.refresh();
    for (const char* cg : {"w1", "w2/c1"}) {
      auto oc = oomd.ctx_.addToCacheAndGet(Oomd::CgroupPath(S.fs.root(), cg));
      if (!oc) continue;
      const Oomd::CgroupContext& c = oc->get();
      auto q = [&](const char* field, bool avail) { evEmit(J().str("e", "StatQuery").str("file", f.file).str("kind", f.kind).str("field", field).str("cg", cg).boolean("avail", avail)); };
      const std::string& F = f.file;
      if (F == "memory.current") q("current_usage", c.current_usage().has_value());
      else if (F == "memory.swap.current") q("swap_usage", c.swap_usage().has_value());
      else if (F == "memory.swap.max") q("swap_max", c.swap_max().has_value());
      else if (F == "memory.low") q("memory_low", c.memory_low().has_value());
      else if (F == "memory.min") q("memory_min", c.memory_min().has_value());
      else if (F == "memory.high") q("memory_high", c.memory_high().has_value());
      else if (F == "memory.max") q("memory_max", c.memory_max().has_value());
      else if (F == "memory.high.tmp") q("memory_high_tmp", c.memory_high_tmp().has_value());
      else if (F == "memory.stat") {
        if (f.kind != "empty") q("memory_stat", c.memory_stat().has_value());
        q("anon_usage", c.anon_usage().has_value()); q("file_usage", c.file_usage().has_value());
        q("shmem_usage", c.shmem_usage().has_value()); q("pg_scan_cumulative", c.pg_scan_cumulative().has_value());
      }
      else if (F == "memory.pressure") { q("mem_pressure", c.mem_pressure().has_value()); q("mem_pressure_some", c.mem_pressure_some().has_value()); }
      else if (F == "io.pressure") { q("io_pressure", c.io_pressure().has_value()); q("io_pressure_some", c.io_pressure_some().has_value()); }
      else if (F == "io.stat") { if (f.kind != "empty") q("io_stat", c.io_stat().has_value()); }
      else if (F == "cgroup.stat") q("nr_dying_descendants", c.nr_dying_descendants().has_value());
      else if (F == "cgroup.events") q("is_populated", c.is_populated().has_value());
      else if (F == "memory.oom.group") q("oom_group", c.oom_group().has_value());
    }
  }
  // a counter that could not be sampled in the faulted tick has NO previous-tick sample in the tick after it: with the
  // fault lifted, its per-tick rate is unavailable (pgscan) / zero (io cost) - not a delta over several ticks
  if ((f.kind == "absent" || f.kind == "empty" || f.kind == "unreadable" || f.kind == "readfail") && (f.file == "memory.stat" || f.file == "io.stat")) {
    inFault = false;
    busy = true; S.render(3); busy = false;
    oomd.ctx_.refresh();
    for (const char* cg : {"w1", "w2/c1"}) {
      auto oc = oomd.ctx_.addToCacheAndGet(Oomd::CgroupPath(S.fs.root(), cg));
      if (!oc) continue;
      const Oomd::CgroupContext& c = oc->get();
      bool guessed = f.file == "memory.stat" ? c.pg_scan_rate().has_value() : (c.io_cost_rate().value_or(0) != 0);
      evEmit(J().str("e", "StatQuery").str("file", f.file).str("kind", f.kind).str("field", f.file == "memory.stat" ? "pg_scan_rate_after_gap" : "io_cost_rate_after_gap")
                 .str("cg", cg).boolean("avail", guessed));
    }
  }
  inFault = false;
  alarm(0);
  I.onOpen = nullptr; I.onOpened = nullptr; I.onKill = nullptr;
  return counter;
}

int main(int argc, char** argv) {
  if (argc < 5) return 2;
  std::string tracePath = argv[1];
  uint64_t seed = strtoull(argv[2], nullptr, 10);
  int nScn = atoi(argv[3]), stride = atoi(argv[4]), firstScn = argc > 5 ? atoi(argv[5]) : 0;
  const char* only = getenv("VERIF_FAULT"); // replay: "kind:file:k:cg"
  { FILE* t = fopen(tracePath.c_str(), "w"); if (t) fclose(t); }
  std::string tmpd = getenv("VERIF_TMP") ? getenv("VERIF_TMP") : "/tmp";
  auto runChild = [&](int scn, const Fault& f, int idx) -> int {
    fflush(nullptr);
    pid_t pid = fork();
    if (pid == 0) {
      FILE* out = fopen(tracePath.c_str(), "a");
      setvbuf(out, nullptr, _IOFBF, 1 << 16);
      // evlog appends to the shared trace file; every child writes its whole execution in one piece
      evOpen("/dev/null");
      std::string mine = tmpd + "/tick." + std::to_string(getpid()) + ".ndjson";
      evOpen(mine);
      installAbortHandlers();
      std::ostringstream sink;
      Oomd::Log::get(-1, sink, true);
      Oomd::Stats::init(tmpd + "/vstats." + std::to_string(getpid()) + ".sock");
      evEmit(J().str("e", "SReset").num("scn", scn).num("seed", (long long)seed).num("idx", idx)
                 .raw("fault", J().str("kind", f.kind).str("file", f.file).num("k", f.k).str("cg", f.cg).num("variant", f.variant).done()));
      std::vector<std::string> log;
      int n = execute(seed, scn, f, f.kind == "none" ? &log : nullptr);
      evEmit(J().str("e", "SEnd").num("accesses", n));
      evFlush();
      if (f.kind == "none") { FILE* a = fopen((tmpd + "/tick.accesses").c_str(), "w"); for (auto& l : log) fprintf(a, "%s\n", l.c_str()); fclose(a); }
      _exit(0);
    }
    int st = 0;
    waitpid(pid, &st, 0);
    // append the child's trace (complete or ending in Abort) to the shared file
    std::string mine = tmpd + "/tick." + std::to_string(pid) + ".ndjson";
    FILE* in = fopen(mine.c_str(), "r"); FILE* out = fopen(tracePath.c_str(), "a");
    bool sawEnd = false; char buf[1 << 16];
    if (in) { while (fgets(buf, sizeof buf, in)) { fputs(buf, out); if (!strncmp(buf, "{\"e\":\"SEnd\"", 11) || !strncmp(buf, "{\"e\":\"Abort\"", 12)) sawEnd = true; } fclose(in); }
    if (!sawEnd) fprintf(out, "{\"e\":\"Abort\",\"why\":\"died\",\"detail\":\"status %d\"}\n", st);
    fclose(out);
    unlink(mine.c_str());
    return st;
  };
  for (int scn = firstScn; scn < firstScn + nScn; scn++) {
    int idx = 0;
    if (only) {
      Fault f; char kind[64] = "", file[128] = "", cg[64] = ""; int k = 0, variant = 0;
      sscanf(only, "%63[^:]:%127[^:]:%d:%63[^:]:%d", kind, file, &k, cg, &variant);
      f.kind = kind; f.file = file[0] == '-' ? "" : file; f.k = k; f.cg = cg[0] == '-' ? "" : cg; f.variant = variant;
      runChild(scn, f, 0);
      continue;
    }
    runChild(scn, Fault{"none", "", 0, ""}, idx++);
    std::vector<std::string> accesses; std::set<std::string> files;
    { FILE* a = fopen((tmpd + "/tick.accesses").c_str(), "r"); char b[4096]; while (a && fgets(b, sizeof b, a)) { std::string l(b); while (!l.empty() && l.back() == '\n') l.pop_back(); accesses.push_back(l); files.insert(l.substr(l.rfind('/') + 1)); } if (a) fclose(a); }
    runChild(scn, Fault{"nodtype", "", 0, ""}, idx++);
    for (auto& file : files) {
      // only regular files take file-level faults (directories vanish through remove / recreate)
      static const std::set<std::string> procFiles = {"meminfo", "vmstat", "swaps", "memory", "io", "swappiness"};
      if (file.find('.') == std::string::npos && !procFiles.count(file)) continue;
      for (auto kind : {"absent", "empty", "unreadable", "readfail"}) runChild(scn, Fault{kind, file, 0, ""}, idx++);
    }
    int K = (int)accesses.size();
    Rng r(seed + scn);
    for (int k = 1 + r.upto(stride); k <= K; k += stride)
      for (auto kind : {"remove", "recreate"})
        for (auto cg : {"w1", "w2", "w2/c1"}) if (stride == 1 || r.chance(50)) runChild(scn, Fault{kind, "", k, cg}, idx++);
    // variant 1 (second-level patterns only): every access index, the parent or a child removed / re-created
    runChild(scn, Fault{"none", "", 0, "", 1}, idx++);
    int K1 = 0;
    { FILE* a = fopen((tmpd + "/tick.accesses").c_str(), "r"); char b[4096]; while (a && fgets(b, sizeof b, a)) K1++; if (a) fclose(a); }
    for (int k = 1; k <= K1; k++)
      for (auto kind : {"remove", "recreate"})
        for (auto cg : {"w2", "w2/c1"}) runChild(scn, Fault{kind, "", k, cg, 1}, idx++);
  }
  return 0;
}
