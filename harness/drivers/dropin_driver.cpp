// Conformance driver for C14: the REAL FsDropInService (inotify + epoll watcher thread) on a real temporary
// directory, the REAL DropInServiceAdaptor hand-off queue, ConfigCompiler and Engine, with scripted plugins
// whose id is "<file>:<version>" so that the set of active drop-ins and their content is observable from an
// engine tick.  One thread performs a random sequence of file operations (atomic put, truncating write,
// partial write, rename, delete, rmdir, mkdir) with contents of every kind (valid, garbage, partial, empty,
// unknown ruleset, unknown plugin, failing init, ruleset without drop-in permission, bad post_action_delay),
// the main thread ticks (updateDropIns + prerun + runOnce) concurrently.  Hook points (OOMD_VERIF) report the
// watcher's events and every hand-off; they also inject seeded yields to widen the explored interleavings.
// usage: dropin_driver <trace.ndjson> <seed> <nScenarios> [firstScenario]
#include <dirent.h>
#include <dlfcn.h>
#include <errno.h>
#include <fcntl.h>
#include <sys/inotify.h>
#include <sys/stat.h>
#include <unistd.h>
#include <atomic>
#include <chrono>
#include <cstdio>
#include <cstdlib>
#include <cstring>
#include <map>
#include <mutex>
#include <random>
#include <set>
#include <sstream>
#include <thread>

#include "../common/evlog.h"
#include "../common/scripted.h"
#include "oomd/Log.h"
#include "oomd/OomdContext.h"
#include "oomd/PluginConstructionContext.h"
#include "oomd/Stats.h"
#include "oomd/config/ConfigCompiler.h"
#include "oomd/config/JsonConfigParser.h"
#include "oomd/dropin/FsDropInService.h"
#include "oomd/engine/Engine.h"
#include "oomd/include/Verif.h"

using namespace verif;
struct Rng {
  std::mt19937_64 g;
  explicit Rng(uint64_t s) : g(s) {}
  int upto(int n) { return (int)(g() % (uint64_t)n); }
  bool chance(int pct) { return upto(100) < pct; }
  template <class T> const T& pick(const std::vector<T>& v) { return v[upto((int)v.size())]; }
};

// transient failures of the watch registration: the next N calls of inotify_add_watch fail with ENOSPC
static std::atomic<int> g_failAddWatch{0};
extern "C" int inotify_add_watch(int fd, const char* path, uint32_t mask) {
  using Fn = int (*)(int, const char*, uint32_t);
  static Fn real = (Fn)dlsym(RTLD_NEXT, "inotify_add_watch");
  int left = g_failAddWatch.load();
  while (left > 0 && !g_failAddWatch.compare_exchange_weak(left, left - 1)) {}
  if (left > 0) { errno = ENOSPC; return -1; }
  return real(fd, path, mask);
}

static const std::vector<std::string> kNames = {"a.json", "b.json", "c", ".hid.json"};
static std::thread::id g_mainThread;
static std::atomic<long> g_hookCount{0};
static std::atomic<uint64_t> g_yieldSeed{0};
static std::atomic<bool> g_inCtor{false};

static const char* who() { return std::this_thread::get_id() == g_mainThread ? "m" : "w"; }
// id "<file>:<ver>" -> ver
static int verOf(const std::string& id) { auto p = id.rfind(':'); return p == std::string::npos ? -1 : atoi(id.c_str() + p + 1); }

static void hook(const char* tag, long a, long b) {
  g_hookCount.fetch_add(1);
  if (!strcmp(tag, "dropin.event")) {
    uint32_t m = (uint32_t)a;
    const char* cls = (m & (IN_MOVED_TO | IN_MODIFY)) ? "add" : (m & (IN_DELETE | IN_MOVED_FROM)) ? "rm" : (m & (IN_DELETE_SELF | IN_MOVE_SELF)) ? "self" : "other";
    evEmit(J().str("e", "WEvent").str("c", cls).str("n", (const char*)b).num("mask", (long long)m));
  } else if (!strcmp(tag, "dropin.sched")) {
    std::string t = (const char*)a;
    if (b) evEmit(J().str("e", "Sched").str("tag", t).boolean("add", true).num("v", verOf(lastInitIdThisThread())).str("thr", who()));
    else evEmit(J().str("e", "Sched").str("tag", t).boolean("add", false).num("v", 0).str("thr", who()));
  } else if (!strcmp(tag, "dropin.swap")) evEmit(J().str("e", "Swap").num("n", a));
  else if (!strcmp(tag, "dropin.apply")) evEmit(J().str("e", "Apply").str("tag", (const char*)a).num("res", b));
  else if (!strcmp(tag, "dropin.dereg")) evEmit(J().str("e", "Dereg").num("ret", a));
  else if (!strcmp(tag, "dropin.reg")) evEmit(J().str("e", "Reg").boolean("ok", a == 0));
  else if (!strcmp(tag, "dropin.scan.done")) evEmit(J().str("e", "ScanDone"));
  else if (!strcmp(tag, "dropin.loop.locked")) evEmit(J().str("e", "WLocked"));
  // seeded yields: widen the interleavings (never while emitting; sleeping under a lock only delays the others)
  uint64_t s = g_yieldSeed.load();
  if (s) {
    uint64_t x = g_yieldSeed.fetch_add(0x9E3779B97F4A7C15ULL) * 0xBF58476D1CE4E5B9ULL;
    x ^= x >> 31;
    int r = (int)(x % 100);
    if (r < 25) std::this_thread::yield();
    else if (r < 40) std::this_thread::sleep_for(std::chrono::microseconds(50 + (x >> 8) % 1500));
  }
}

// ---- contents
struct Content { std::string kind; int ver; std::string text; };
static std::string validText(const std::string& name, int ver, const std::string& rs) {
  std::string id = name + ":" + std::to_string(ver);
  return "{\"rulesets\":[{\"name\":\"" + rs + "\",\"detectors\":[[\"dg\",{\"name\":\"verif_det\",\"args\":{\"id\":\"" + id +
      "\"}}]],\"actions\":[{\"name\":\"verif_act\",\"args\":{\"id\":\"" + id + "\"}}]}]}";
}
// one file, two entries for the SAME base ruleset: one overrides the detectors, the other the actions
static std::string twinText(const std::string& name, int ver, const std::string& rs) {
  std::string id = name + ":" + std::to_string(ver);
  return "{\"rulesets\":[{\"name\":\"" + rs + "\",\"detectors\":[[\"dg\",{\"name\":\"verif_det\",\"args\":{\"id\":\"" + id + "\"}}]]},"
         "{\"name\":\"" + rs + "\",\"actions\":[{\"name\":\"verif_act\",\"args\":{\"id\":\"" + id + "\"}}]}]}";
}
static Content makeContent(Rng& r, const std::string& name, int ver) {
  int x = r.upto(100);
  std::string v = validText(name, ver, r.chance(50) ? "base0" : "base1");
  if (x < 10) return {"valid", ver, twinText(name, ver, r.chance(50) ? "base0" : "base1")};
  if (x < 50) return {"valid", ver, v};
  std::string id = name + ":" + std::to_string(ver);
  switch (r.upto(10)) {
    case 0: return {"garbage", ver, "this is not json {"};
    case 1: return {"partial", ver, v.substr(0, 1 + r.upto((int)v.size() - 2))};
    case 2: return {"empty", ver, ""};
    case 3: return {"unknownrs", ver, validText(name, ver, "no-such-ruleset")};
    case 4: return {"unknownplugin", ver, "{\"rulesets\":[{\"name\":\"base0\",\"detectors\":[[\"dg\",{\"name\":\"no_such_plugin\",\"args\":{}}]]}]}"};
    case 5: return {"initfail", ver, "{\"rulesets\":[{\"name\":\"base0\",\"detectors\":[[\"dg\",{\"name\":\"verif_det\",\"args\":{\"bogus\":\"1\"}}]]}]}"};
    case 6: return {"locked", ver, validText(name, ver, "locked")};
    case 7: return r.chance(40) ? Content{"truncjson", ver, v.substr(0, v.size() - 1)}
                   // well-formed JSON of the wrong shape: jsoncpp reports these with Json::LogicError (a std::exception
                   // that is no std::runtime_error), the parser itself with std::runtime_error
                   : Content{"shape", ver, r.pick(std::vector<std::string>{"[1,2,3]", "\"str\"", "17", "{\"rulesets\":5}", "{\"rulesets\":[5]}",
                                                                          "{\"rulesets\":[{\"name\":{\"a\":1}}]}", "{\"rulesets\":\"base0\"}"})};
    case 8: return {"baddelay", ver, "{\"rulesets\":[{\"name\":\"base0\",\"post_action_delay\":\"abc\",\"detectors\":[[\"dg\",{\"name\":\"verif_det\",\"args\":{\"id\":\"" + id + "\"}}]]}]}"};
    default: return {"binary", ver, std::string("\x00\xff\xfe{\"", 5)};
  }
}

static std::string g_dir, g_stage;
static std::string pth(const std::string& n) { return g_dir + "/" + n; }
static void writeAll(int fd, const std::string& s) { size_t o = 0; while (o < s.size()) { ssize_t k = ::write(fd, s.data() + o, s.size() - o); if (k <= 0) break; o += k; } }

static J opJ(const char* op, const std::string& n, const std::string& n2, const Content* c) {
  J j; j.str("e", "FsCall").str("op", op).str("n", n).str("n2", n2).str("k", c ? (c->kind == "valid" ? "valid" : "bad") : "none").num("v", c ? c->ver : 0);
  if (c) j.str("kind", c->kind);
  return j;
}

static const char* kBase = R"({"rulesets":[
 {"name":"base0","drop-in":{"detectors":true,"actions":true},"detectors":[["dg0",{"name":"verif_det","args":{"id":"base0:0"}}]],"actions":[{"name":"verif_act","args":{"id":"base0:0"}}]},
 {"name":"base1","drop-in":{"detectors":true,"actions":true,"disable-on-drop-in":true},"detectors":[["dg1",{"name":"verif_det","args":{"id":"base1:0"}}]],"actions":[{"name":"verif_act","args":{"id":"base1:0"}}]},
 {"name":"locked","detectors":[["dg2",{"name":"verif_det","args":{"id":"locked:0"}}]],"actions":[{"name":"verif_act","args":{"id":"locked:0"}}]}]})";

int main(int argc, char** argv) {
  if (argc < 4) return 2;
  evOpen(argv[1]);
  uint64_t seed = strtoull(argv[2], nullptr, 10);
  int nScn = atoi(argv[3]); int firstScn = argc > 4 ? atoi(argv[4]) : 0;
  installAbortHandlers();
  std::ostringstream sink;
  Oomd::Log::get(-1, sink, true);
  g_mainThread = std::this_thread::get_id();
  setConcurrentMode(true);
  std::string tmpd = getenv("VERIF_TMP") ? getenv("VERIF_TMP") : "/tmp";
  Oomd::Stats::init(tmpd + "/dropin." + std::to_string(getpid()) + ".sock");
  Oomd::Verif::point.store(hook);
  // detectors that ran in the current tick
  std::mutex ranMu; std::set<std::string> ran;
  setDecider([&](const CallInfo& ci) { if (!ci.isAction) { std::lock_guard<std::mutex> g(ranMu); ran.insert(ci.id); } return Decision{1, 0}; });

  for (int scn = firstScn; scn < firstScn + nScn; scn++) {
    Rng r(seed * 7046029254386353131ULL + scn);
    g_dir = tmpd + "/dropins." + std::to_string(getpid()) + "." + std::to_string(scn);
    g_stage = g_dir + ".stage";
    ::mkdir(g_stage.c_str(), 0755);
    int ver = 0;
    // the driver's own record of the directory (valid? version) - used ONLY to stop the settling ticks early; the verdict
    // is the specification's
    std::map<std::string, std::pair<bool, int>> disk; std::mutex diskMu; bool dirNow = false;
    // files present at start-up (or no directory at all)
    bool dirAtStart = r.chance(85);
    std::vector<std::string> init;
    evEmit(J().str("e", "SReset").num("scn", scn).num("seed", (long long)seed).boolean("dir", dirAtStart));
    dirNow = dirAtStart;
    if (dirAtStart) {
      ::mkdir(g_dir.c_str(), 0755);
      for (auto& n : kNames) if (r.chance(45)) {
        Content c = makeContent(r, n, ++ver);
        int fd = ::open(pth(n).c_str(), O_WRONLY | O_CREAT | O_TRUNC, 0644); writeAll(fd, c.text); ::close(fd);
        disk[n] = {c.kind == "valid", c.ver};
        evEmit(J().str("e", "InitFile").str("n", n).str("k", c.kind == "valid" ? "valid" : "bad").num("v", c.ver).str("kind", c.kind));
      }
    }
    g_yieldSeed.store(r.chance(80) ? (r.g() | 1) : 0);
    auto parser = Oomd::Config2::JsonConfigParser();
    auto root = parser.parse(kBase);
    const Oomd::PluginConstructionContext pcc("/sys/fs/cgroup");
    auto engine = Oomd::Config2::compile(*root, pcc);
    if (!engine) { evEmit(J().str("e", "Abort").str("why", "harness").str("detail", "base config did not compile")); evFlush(); _exit(0); }
    Oomd::OomdContext ctx;
    if (r.chance(10)) g_failAddWatch.store(1);   // also the very first registration may fail
    evEmit(J().str("e", "CtorBegin"));
    auto svc = Oomd::FsDropInService::create("/sys/fs/cgroup", *root, *engine, g_dir);
    evEmit(J().str("e", "CtorDone"));

    std::set<int> lastActive;
    auto tick = [&] {
      evEmit(J().str("e", "Tick"));
      svc->updateDropIns();
      { std::lock_guard<std::mutex> g(ranMu); ran.clear(); }
      engine->prerun(ctx);
      engine->runOnce(ctx);
      std::vector<std::string> ids;
      { std::lock_guard<std::mutex> g(ranMu);
        for (auto& id : ran) { auto p = id.rfind(':'); std::string n = id.substr(0, p); if (n == "base0" || n == "base1" || n == "locked") continue;
          ids.push_back(J::arr({J::quote(n), std::to_string(verOf(id))})); } }
      lastActive.clear();
      { std::lock_guard<std::mutex> g(ranMu);
        for (auto& id : ran) { auto p = id.rfind(':'); std::string n = id.substr(0, p); if (n != "base0" && n != "base1" && n != "locked") lastActive.insert(verOf(id)); } }
      evEmit(J().str("e", "Active").raw("ids", J::arr(ids)));
    };

    // ---- the file-operation thread
    int nOps = 3 + r.upto(10);
    uint64_t opSeed = r.g();
    std::atomic<bool> opsDone{false};
    int verBase = ver;
    std::thread ops([&] {
      Rng o(opSeed);
      int v = verBase;
      bool dirThere = dirAtStart;
      std::map<std::string, Content> pendingPartial;
      std::map<std::string, Content> lastValid;   // name -> the last valid content written under that name (same text, same version)
      for (int i = 0; i < nOps; i++) {
        if (o.chance(60)) std::this_thread::sleep_for(std::chrono::microseconds(o.upto(4000)));
        int x = o.upto(100);
        std::string n = o.pick(kNames);
        if (!dirThere && x < 90) { if (o.chance(50)) x = 95; else continue; }
        if (x < 25) {          // atomic put: write elsewhere, rename into the directory
          Content c = makeContent(o, n, ++v);
          std::string st = g_stage + "/f";
          int fd = ::open(st.c_str(), O_WRONLY | O_CREAT | O_TRUNC, 0644); writeAll(fd, c.text); ::close(fd);
          evEmit(opJ("put", n, "", &c)); int rc = ::rename(st.c_str(), pth(n).c_str()); evEmit(J().str("e", "FsRet").boolean("done", rc == 0));
          if (rc == 0) { std::lock_guard<std::mutex> g(diskMu); disk[n] = {c.kind == "valid", c.ver}; }
        } else if (x < 50) {   // truncating write; sometimes of exactly the content this name had when it was last valid
          Content c = (lastValid.count(n) && o.chance(30)) ? lastValid[n] : makeContent(o, n, ++v);
          if (c.kind == "valid") lastValid[n] = c;
          evEmit(opJ(c.text.empty() ? "trunc" : "write", n, "", &c));
          int fd = ::open(pth(n).c_str(), O_WRONLY | O_CREAT | O_TRUNC, 0644);
          if (fd >= 0) { if (!c.text.empty()) writeAll(fd, c.text); ::close(fd); }
          evEmit(J().str("e", "FsRet").boolean("done", fd >= 0));
          if (fd >= 0) { std::lock_guard<std::mutex> g(diskMu); disk[n] = {c.kind == "valid", c.ver}; }
        } else if (x < 62) {   // write in two parts: a prefix now, the rest by the next operation on this thread
          Content c = makeContent(o, n, ++v);
          Content part{"partial", c.ver, c.text.substr(0, c.text.size() / 2)};
          evEmit(opJ(part.text.empty() ? "trunc" : "write", n, "", &part));
          int fd = ::open(pth(n).c_str(), O_WRONLY | O_CREAT | O_TRUNC, 0644);
          if (fd >= 0) { if (!part.text.empty()) writeAll(fd, part.text); ::close(fd); }
          evEmit(J().str("e", "FsRet").boolean("done", fd >= 0));
          if (fd >= 0) { std::lock_guard<std::mutex> g(diskMu); disk[n] = {false, part.ver}; }
          if (o.chance(70)) std::this_thread::sleep_for(std::chrono::microseconds(o.upto(3000)));
          if (c.text.size() > part.text.size()) {
            evEmit(opJ("append", n, "", &c));
            fd = ::open(pth(n).c_str(), O_WRONLY | O_APPEND);
            if (fd >= 0) { writeAll(fd, c.text.substr(part.text.size())); ::close(fd); }
            evEmit(J().str("e", "FsRet").boolean("done", fd >= 0));
            if (fd >= 0) { std::lock_guard<std::mutex> g(diskMu); disk[n] = {c.kind == "valid", c.ver}; }
          }
        } else if (x < 75) {   // delete
          evEmit(opJ("delete", n, "", nullptr)); int rc = ::unlink(pth(n).c_str()); evEmit(J().str("e", "FsRet").boolean("done", rc == 0));
          if (rc == 0) { std::lock_guard<std::mutex> g(diskMu); disk.erase(n); }
        } else if (x < 88) {   // rename inside the directory
          std::string n2 = o.pick(kNames);
          if (n2 == n) continue;
          evEmit(opJ("rename", n, n2, nullptr)); int rc = ::rename(pth(n).c_str(), pth(n2).c_str()); evEmit(J().str("e", "FsRet").boolean("done", rc == 0));
          if (rc == 0) { std::lock_guard<std::mutex> g(diskMu); disk[n2] = disk[n]; disk.erase(n); }
        } else if (x < 94) {   // delete everything and the directory
          for (auto& f : kNames) { evEmit(opJ("delete", f, "", nullptr)); int rc = ::unlink(pth(f).c_str()); evEmit(J().str("e", "FsRet").boolean("done", rc == 0));
                                   if (rc == 0) { std::lock_guard<std::mutex> g(diskMu); disk.erase(f); } }
          evEmit(opJ("rmdir", "", "", nullptr)); int rc = ::rmdir(g_dir.c_str()); evEmit(J().str("e", "FsRet").boolean("done", rc == 0));
          if (rc == 0) { dirThere = false; std::lock_guard<std::mutex> g(diskMu); dirNow = false; }
        } else {               // (re)create the directory
          if (o.chance(35)) g_failAddWatch.store(1 + o.upto(2));   // the re-registration of the new directory fails once or twice
          evEmit(opJ("mkdir", "", "", nullptr)); int rc = ::mkdir(g_dir.c_str(), 0755); evEmit(J().str("e", "FsRet").boolean("done", rc == 0));
          if (rc == 0) { dirThere = true; std::lock_guard<std::mutex> g(diskMu); dirNow = true; }
        }
      }
      opsDone.store(true);
    });
    // ---- main loop: ticks while the operations run
    while (!opsDone.load()) {
      tick();
      std::this_thread::sleep_for(std::chrono::microseconds(r.upto(3000)));
    }
    ops.join();
    // ---- the file system is quiet now: wait until the watcher has nothing left to do, then a few ticks
    g_yieldSeed.store(0);
    g_failAddWatch.store(0);
    for (int quietFor = 0, waited = 0; quietFor < 6 && waited < 400; waited++) {
      long before = g_hookCount.load();
      std::this_thread::sleep_for(std::chrono::milliseconds(10));
      quietFor = g_hookCount.load() == before ? quietFor + 1 : 0;
    }
    evEmit(J().str("e", "Quiet"));
    // at least three ticks; under a loaded machine the watcher may lag behind the quiet-detection above, so ticking goes
    // on (up to 60 ticks, ~1.5 s) until the engine runs what the driver's record expects - if it never does, the
    // specification rejects the Settle event below
    std::set<int> want;
    if (dirNow) for (auto& [n, c] : disk) if (!n.empty() && n[0] != '.' && c.first) want.insert(c.second);
    for (int i = 0; i < 60; i++) {
      tick();
      if (i >= 2 && lastActive == want) break;
      std::this_thread::sleep_for(std::chrono::milliseconds(i < 3 ? 15 : 25));
    }
    // what is on disk now
    {
      std::vector<std::string> names;
      if (DIR* d = ::opendir(g_dir.c_str())) { while (auto* e = ::readdir(d)) { std::string n = e->d_name; if (n != "." && n != "..") names.push_back(J::quote(n)); } ::closedir(d); }
      std::sort(names.begin(), names.end());
      struct stat sb;
      evEmit(J().str("e", "Settle").boolean("dir", ::stat(g_dir.c_str(), &sb) == 0).raw("present", J::arr(names)));
    }
    evEmit(J().str("e", "Stop"));
    svc.reset();
    // every inotify instance the service created must be closed by now (a leak per failed registration would
    // exhaust the per-user limit of 128 and end all watching)
    int inotifyFds = 0;
    if (DIR* d = ::opendir("/proc/self/fd")) {
      while (auto* e = ::readdir(d)) {
        char buf[256]; std::string lnk = std::string("/proc/self/fd/") + e->d_name;
        ssize_t k = ::readlink(lnk.c_str(), buf, sizeof buf - 1);
        if (k > 0) { buf[k] = 0; if (strstr(buf, "inotify")) inotifyFds++; }
      }
      ::closedir(d);
    }
    evEmit(J().str("e", "SvcGone").num("inotifyFds", inotifyFds));
    engine.reset();
    for (auto& f : kNames) ::unlink(pth(f).c_str());
    ::rmdir(g_dir.c_str()); ::unlink((g_stage + "/f").c_str()); ::rmdir(g_stage.c_str());
  }
  evFlush();
  _exit(0);
}
