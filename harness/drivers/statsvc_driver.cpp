// Conformance driver for C19: the REAL Stats service (get_for_unittest) is exercised by concurrent API
// threads and socket clients (call/return pairs recorded for a linearizability search), by raw clients
// sending every kind of request (first byte x length x termination x disconnect behaviour), by shutdown
// while clients are in different phases, and by socket paths around sizeof(sun_path).
// usage: statsvc_driver <trace.ndjson> <seed> <nScenarios> <mode: api|proto|shutdown|path|mix> [firstScenario]
#include <fcntl.h>
#include <json/json.h>
#include <signal.h>
#include <sys/socket.h>
#include <sys/un.h>
#include <unistd.h>
#include <atomic>
#include <barrier>
#include <cstdio>
#include <cstdlib>
#include <cstring>
#include <map>
#include <random>
#include <sstream>
#include <thread>

#include "../common/evlog.h"
#include "oomd/Log.h"
#include "oomd/Stats.h"
#include "oomd/StatsClient.h"
#include "oomd/include/Verif.h"

using namespace verif;
struct Rng {
  std::mt19937_64 g;
  explicit Rng(uint64_t s) : g(s) {}
  int upto(int n) { return (int)(g() % (uint64_t)n); }
  bool chance(int pct) { return upto(100) < pct; }
  template <class T> const T& pick(const std::vector<T>& v) { return v[upto((int)v.size())]; }
};

static void hook(const char* tag, long, long) {
  if (!strcmp(tag, "stats.handler.start")) evEmit(J().str("e", "HStart"));
  else if (!strcmp(tag, "stats.handler.end")) evEmit(J().str("e", "HEnd"));
  else if (!strcmp(tag, "stats.dtor.begin")) evEmit(J().str("e", "DtorBegin"));
  else if (!strcmp(tag, "stats.dtor.end")) evEmit(J().str("e", "DtorEnd"));
}
// keys starting with 'p' are bulk filler that only makes the table large; they are never part of a reported result (the
// projection of a linearisable history onto the other keys is linearisable: keys are independent, reset treats all alike)
static std::string mapJson(const std::unordered_map<std::string, int>& m) {
  std::map<std::string, int> s;
  for (auto& [k, v] : m) if (k.empty() || k[0] != 'p') s.emplace(k, v);
  std::vector<std::string> v;
  for (auto& [k, x] : s) v.push_back("[" + J::quote(k) + "," + std::to_string(x) + "]");
  return J::arr(v);
}
static int connectTo(const std::string& path) {
  int fd = ::socket(AF_UNIX, SOCK_STREAM, 0);
  sockaddr_un a{}; a.sun_family = AF_UNIX; strncpy(a.sun_path, path.c_str(), sizeof(a.sun_path) - 1);
  timeval tv{4, 0};
  setsockopt(fd, SOL_SOCKET, SO_RCVTIMEO, &tv, sizeof tv);
  if (::connect(fd, (sockaddr*)&a, sizeof a) < 0) { ::close(fd); return -1; }
  return fd;
}
// reads until the server hangs up (eof = true) or nothing arrives for patienceSec (eof = false)
static std::string readAll(int fd, bool* eof = nullptr, int patienceSec = 4) {
  timeval tv{patienceSec, 0};
  setsockopt(fd, SOL_SOCKET, SO_RCVTIMEO, &tv, sizeof tv);
  std::string s; char b[1024]; ssize_t n;
  while ((n = ::read(fd, b, sizeof b)) > 0) s.append(b, n);
  // (a server closing with unread request bytes left resets the connection: that is a hang-up too)
  if (eof) *eof = n == 0 || (n < 0 && errno != EAGAIN && errno != EWOULDBLOCK && errno != EINTR);
  return s;
}
// number of JSON documents in s (0, 1, or 2 meaning "more than one / garbage"), error code of the first
static void analyse(const std::string& s, int& nDocs, bool& wellFormed, int& err, Json::Value* body = nullptr) {
  nDocs = 0; wellFormed = false; err = -1;
  if (s.find_first_not_of(" \n\t\r") == std::string::npos) return;
  Json::CharReaderBuilder rb; rb["failIfExtra"] = true;
  Json::Value root; std::string errs; std::istringstream in(s);
  if (Json::parseFromStream(rb, in, &root, &errs) && root.isObject() && root.isMember("error") && root["error"].isInt() && root.isMember("body")) {
    nDocs = 1; wellFormed = true; err = root["error"].asInt(); if (body) *body = root["body"];
  } else { nDocs = 2; }
}

// a scenario that does not finish within 40 s means the server (or its shutdown) is wedged
static std::atomic<long> g_scnStart{0};
static void watchdog() {
  for (;;) {
    std::this_thread::sleep_for(std::chrono::seconds(1));
    long t = g_scnStart.load();
    if (t && time(nullptr) - t > 40) {
      evEmit(J().str("e", "Abort").str("why", "wedged").str("detail", "scenario did not finish within 40 s"));
      evFlush();
      _exit(0);
    }
  }
}

int main(int argc, char** argv) {
  if (argc < 5) return 2;
  std::thread(watchdog).detach();
  evOpen(argv[1]);
  uint64_t seed = strtoull(argv[2], nullptr, 10);
  int nScn = atoi(argv[3]); std::string mode = argv[4]; int firstScn = argc > 5 ? atoi(argv[5]) : 0;
  installAbortHandlers();
  std::ostringstream sink;
  Oomd::Log::get(-1, sink, true);
  Oomd::Verif::point.store(hook);
  std::string tmpd = getenv("VERIF_TMP") ? getenv("VERIF_TMP") : "/tmp";
  for (int scn = firstScn; scn < firstScn + nScn; scn++) {
    Rng r(seed * 122949823ULL + scn);
    // mode mix: scenario number decides (>= 100000: socket path scenarios, run under ASan by the check)
    std::string m = mode == "mix" ? (scn >= 100000 ? "path" : std::vector<std::string>{"api", "api", "proto", "api", "shutdown"}[scn % 5]) : mode;
    std::string path = tmpd + "/vs." + std::to_string(getpid()) + "." + std::to_string(scn) + ".sock";
    evEmit(J().str("e", "SReset").num("scn", scn).num("seed", (long long)seed).str("mode", m));
    g_scnStart.store(time(nullptr));
    if (m == "path") {
      // socket paths around sizeof(sun_path) = 108: too long ones must make initialisation fail
      std::vector<int> lens = {106, 107, 108, 109, 120, 300, 5000};
      lens.push_back(60 + r.upto(47)); lens.push_back(110 + r.upto(400));
      for (int len : lens) {
        std::string p = tmpd + "/";
        while ((int)p.size() < len) p += 'p';
        bool ok = true;
        try { auto s = Oomd::Stats::get_for_unittest(p); evEmit(J().str("e", "New")); std::this_thread::sleep_for(std::chrono::milliseconds(20)); } catch (const std::exception&) { ok = false; }
        ::unlink(p.c_str());
        evEmit(J().str("e", "InitResult").num("len", len).boolean("usable", len < 108).boolean("ok", ok).str("who", "server"));
        bool cok = true;
        try { Oomd::StatsClient c(p); } catch (const std::exception&) { cok = false; }
        evEmit(J().str("e", "InitResult").num("len", len).boolean("usable", len < 108).boolean("ok", cok).str("who", "client"));
      }
      // unusable for other reasons: the directory does not exist / the path is a directory
      for (std::string p : {tmpd + "/no-such-dir-" + std::to_string(getpid()) + "/s.sock", tmpd, std::string("")}) {
        bool ok = true;
        try { auto s = Oomd::Stats::get_for_unittest(p); evEmit(J().str("e", "New")); std::this_thread::sleep_for(std::chrono::milliseconds(20)); } catch (const std::exception&) { ok = false; }
        evEmit(J().str("e", "InitResult").num("len", (long long)p.size()).boolean("usable", false).boolean("ok", ok).str("who", "server"));
      }
      evEmit(J().str("e", "SEnd"));
      continue;
    }
    auto stats = Oomd::Stats::get_for_unittest(path);
    evEmit(J().str("e", "New"));
    if (m == "api") {
      int nThreads = 2 + r.upto(3), perThread = 2 + r.upto(3);
      std::vector<uint64_t> seeds; for (int t = 0; t < nThreads + 2; t++) seeds.push_back(r.g());
      std::vector<std::thread> ths;
      std::atomic<int> go{0};
      for (int t = 0; t < nThreads; t++) ths.emplace_back([&, t] {
        Rng tr(seeds[t]);
        while (!go.load()) {}
        for (int i = 0; i < perThread; i++) {
          int id = (t + 1) * 100 + i, x = tr.upto(100);
          std::string key = tr.pick(std::vector<std::string>{"a", "a", "b"});
          if (x < 50) { evEmit(J().str("e", "Call").num("id", id).str("op", "increment").str("key", key).num("val", 1 + t)); stats->increment(key, 1 + t); evEmit(J().str("e", "Ret").num("id", id).raw("res", "[]")); }
          else if (x < 65) { int v = tr.upto(50); evEmit(J().str("e", "Call").num("id", id).str("op", "set").str("key", key).num("val", v)); stats->set(key, v); evEmit(J().str("e", "Ret").num("id", id).raw("res", "[]")); }
          else if (x < 75) { evEmit(J().str("e", "Call").num("id", id).str("op", "reset").str("key", "").num("val", 0)); stats->reset(); evEmit(J().str("e", "Ret").num("id", id).raw("res", "[]")); }
          else { evEmit(J().str("e", "Call").num("id", id).str("op", "getAll").str("key", "").num("val", 0)); auto mm = stats->getAll(); evEmit(J().str("e", "Ret").num("id", id).raw("res", mapJson(mm))); }
        }
      });
      // socket clients using the real StatsClient
      for (int c = 0; c < 2; c++) ths.emplace_back([&, c] {
        Rng tr(seeds[nThreads + c]);
        while (!go.load()) {}
        Oomd::StatsClient client(path);
        for (int i = 0; i < 2; i++) {
          int id = 9000 + c * 10 + i;
          if (tr.chance(70)) { evEmit(J().str("e", "Call").num("id", id).str("op", "getAll").str("key", "").num("val", 0)); auto mm = client.getStats();
                               if (mm) evEmit(J().str("e", "Ret").num("id", id).raw("res", mapJson(*mm))); else evEmit(J().str("e", "Abort").str("why", "client").str("detail", "getStats failed")); }
          else { evEmit(J().str("e", "Call").num("id", id).str("op", "reset").str("key", "").num("val", 0)); int rc = client.resetStats();
                 if (rc == 0) evEmit(J().str("e", "Ret").num("id", id).raw("res", "[]")); else evEmit(J().str("e", "Abort").str("why", "client").str("detail", "resetStats failed")); }
        }
      });
      go.store(1);
      for (auto& th : ths) th.join();
      // fresh-key rounds: all threads make the FIRST update of a key that does not exist yet at the same moment
      {
        const int nT = 4, rounds = 12;
        std::barrier bar(nT);
        std::atomic<int> spin{0};
        std::vector<std::thread> fts;
        for (int t = 0; t < nT; t++) fts.emplace_back([&, t] {
          for (int rd = 0; rd < rounds; rd++) {
            std::string key = "f" + std::to_string(rd);
            int id = 50000 + rd * 10 + t;
            // the call event is emitted before the barrier (a wider interval is still sound) so that the real
            // calls start as close together as the scheduler allows
            bool isSet = rd % 3 == 2 && t == 0;
            evEmit(J().str("e", "Call").num("id", id).str("op", isSet ? "set" : "increment").str("key", key).num("val", isSet ? 5 : 1));
            bar.arrive_and_wait();
            spin.fetch_add(1); while (spin.load() < (rd + 1) * nT) {}
            if (isSet) stats->set(key, 5); else stats->increment(key, 1);
            evEmit(J().str("e", "Ret").num("id", id).raw("res", "[]"));
          }
        });
        for (auto& th : fts) th.join();
      }
      // reset against concurrent readers over many keys: a snapshot must be entirely before or entirely after the reset.
      // Readers log every call; a read whose result is not interesting is cancelled afterwards (removing a completed
      // read-only operation from a history never makes a linearisable history non-linearisable).
      if (scn % 2 == 0) {
        const int nKeys = 96;
        for (int k = 0; k < nKeys; k++) { std::string key = "r" + std::to_string(k); int id = 60000 + k;
          evEmit(J().str("e", "Call").num("id", id).str("op", "set").str("key", key).num("val", 7)); stats->set(key, 7); evEmit(J().str("e", "Ret").num("id", id).raw("res", "[]")); }
        std::atomic<int> phase{0};
        std::vector<std::thread> rts;
        for (int t = 0; t < 2; t++) rts.emplace_back([&, t] {
          int n = 0, logged = 0;
          while (phase.load() < 2 && n < 4000) {
            int id = 70000 + t * 10000 + n++;
            evEmit(J().str("e", "Call").num("id", id).str("op", "getAll").str("key", "").num("val", 0));
            auto mm = stats->getAll();
            int zeros = 0, sevens = 0;
            for (auto& [k, v] : mm) if (k[0] == 'r') { if (v == 0) zeros++; else sevens++; }
            bool mixed = zeros > 0 && sevens > 0;
            if (mixed || logged < 2) { logged++; evEmit(J().str("e", "Ret").num("id", id).raw("res", mapJson(mm))); }
            else evEmit(J().str("e", "Cancel").num("id", id));
          }
        });
        std::this_thread::sleep_for(std::chrono::microseconds(300));
        evEmit(J().str("e", "Call").num("id", 69999).str("op", "reset").str("key", "").num("val", 0));
        stats->reset();
        evEmit(J().str("e", "Ret").num("id", 69999).raw("res", "[]"));
        phase.store(2);
        for (auto& th : rts) th.join();
        // ... and, separately (no readers logging), against threads that CREATE keys meanwhile: a key whose first set()
        // has returned exists for ever (reset zeroes it but keeps it).  A large table of filler keys (never reported)
        // makes the reset take long enough for the race.
        for (int k = 0; k < 20000; k++) stats->set("p" + std::to_string(k), 1);
        std::atomic<int> wphase{0};
        std::vector<std::thread> wts;
        for (int t = 0; t < 2; t++) wts.emplace_back([&, t] {
          for (int n = 0; wphase.load() < 2 && n < 60; n++) {
            int id = 90000 + t * 1000 + n; std::string key = "n" + std::to_string(t) + "_" + std::to_string(n);
            evEmit(J().str("e", "Call").num("id", id).str("op", "set").str("key", key).num("val", 3));
            stats->set(key, 3);
            evEmit(J().str("e", "Ret").num("id", id).raw("res", "[]"));
          }
        });
        std::this_thread::sleep_for(std::chrono::microseconds(200));
        evEmit(J().str("e", "Call").num("id", 69998).str("op", "reset").str("key", "").num("val", 0));
        stats->reset();
        evEmit(J().str("e", "Ret").num("id", 69998).raw("res", "[]"));
        wphase.store(2);
        for (auto& th : wts) th.join();
      }
      // over the socket: read, register a NEW counter with value 0 (what initializeCoreStats and the kill plugins do),
      // read again - the second reply must list it; and a counter whose name needs JSON escaping must survive the trip
      {
        Oomd::StatsClient client(path);
        auto rd = [&](int id) {
          evEmit(J().str("e", "Call").num("id", id).str("op", "getAll").str("key", "").num("val", 0));
          auto mm = client.getStats();
          if (mm) evEmit(J().str("e", "Ret").num("id", id).raw("res", mapJson(*mm)));
          else evEmit(J().str("e", "Abort").str("why", "client").str("detail", "getStats failed (malformed reply?)"));
        };
        auto st = [&](int id, const std::string& key, int val) {
          evEmit(J().str("e", "Call").num("id", id).str("op", "set").str("key", key).num("val", val));
          stats->set(key, val);
          evEmit(J().str("e", "Ret").num("id", id).raw("res", "[]"));
        };
        rd(80001);
        st(80002, "z.registered.with.zero", 0);
        rd(80003);
        st(80004, "odd \"name\\ with\ttab", 4);
        rd(80005);
      }
      evEmit(J().str("e", "Call").num("id", 1).str("op", "getAll").str("key", "").num("val", 0));
      auto fin = stats->getAll();
      evEmit(J().str("e", "Ret").num("id", 1).raw("res", mapJson(fin)));
    } else if (m == "proto") {
      stats->set("k", 7);
      struct Case { std::string bytes; std::string term; };
      std::vector<Case> cases;
      for (std::string first : {"g", "r", "0", "x", "a", "G", "\xff"})
        for (int len : {1, 2, 31, 32, 33, 40})
          for (std::string term : {"nl", "nul", "halfclose"}) if (r.chance(len <= 2 ? 100 : 35)) cases.push_back({first + std::string(len - 1, r.pick(std::vector<char>{'r', 'g', 'z', '0'})), term});
      cases.push_back({"", "nl"}); cases.push_back({"", "nul"}); cases.push_back({"", "halfclose"}); cases.push_back({"", "close"});
      cases.push_back({"g", "close"}); cases.push_back({"ggg", "rst"}); cases.push_back({"x", "rst"}); cases.push_back({"g", "closeaftersend"});
      if (r.chance(50)) { cases.push_back({"", "stall"}); cases.push_back({"g", "stall"}); }
      std::vector<std::thread> ths;
      for (auto& cs : cases) ths.emplace_back([&, cs] {
        int fd = connectTo(path);
        if (fd < 0) { evEmit(J().str("e", "Abort").str("why", "client").str("detail", "connect failed")); return; }
        std::string msg = cs.bytes;
        if (cs.term == "nl") msg += "\n"; else if (cs.term == "nul") msg += std::string(1, '\0');
        if (!msg.empty()) (void)!::send(fd, msg.data(), msg.size(), MSG_NOSIGNAL);
        std::string first = cs.bytes.empty() ? "" : cs.bytes.substr(0, 1);
        if ((unsigned char)first[0] >= 0x80 && !first.empty()) first = "x";
        bool must = cs.term == "nl" || cs.term == "nul" || cs.term == "halfclose" || (cs.term != "close" && cs.term != "rst" && cs.term != "closeaftersend" && cs.bytes.size() >= 32);
        if (cs.term == "halfclose") ::shutdown(fd, SHUT_WR);
        if (cs.term == "close" || cs.term == "closeaftersend") { ::close(fd); evEmit(J().str("e", "ClientSaw").str("first", first).num("nReplies", 0).boolean("wellFormed", false).num("err", -1).boolean("mustReply", false).boolean("closed", true).str("case", cs.term)); return; }
        if (cs.term == "rst") { linger lg{1, 0}; setsockopt(fd, SOL_SOCKET, SO_LINGER, &lg, sizeof lg); ::close(fd);
                                evEmit(J().str("e", "ClientSaw").str("first", first).num("nReplies", 0).boolean("wellFormed", false).num("err", -1).boolean("mustReply", false).boolean("closed", true).str("case", cs.term)); return; }
        // until the server hangs up; a server that never does (after its own 2 s receive timeout for a stalled client,
        // however long the handlers were busy before) is waited for 30 s
        bool eof = false;
        std::string reply = readAll(fd, &eof, 30);
        ::close(fd);
        int nDocs; bool wf; int err;
        analyse(reply, nDocs, wf, err);
        evEmit(J().str("e", "ClientSaw").str("first", first).num("nReplies", nDocs).boolean("wellFormed", wf).num("err", err).boolean("mustReply", must).boolean("closed", eof)
                   .str("case", cs.term).num("len", (long long)cs.bytes.size()));
      });
      for (auto& th : ths) th.join();
    } else if (m == "shutdown") {
      // clients in different phases while the service is destroyed
      std::vector<int> fds;
      int idle = r.upto(3), partial = r.upto(3);
      for (int i = 0; i < idle; i++) fds.push_back(connectTo(path));
      for (int i = 0; i < partial; i++) { int fd = connectTo(path); if (fd >= 0) (void)!::send(fd, "gg", 2, MSG_NOSIGNAL); fds.push_back(fd); }
      if (r.chance(50)) { Oomd::StatsClient c(path); c.getStats(); }
      // a client that asks for all counters and never reads the (large) reply: the handler must give up after its send
      // timeout, close the connection and return its slot, so that destruction still completes
      if (scn % 10 == 4) {
        for (int k = 0; k < 30000; k++) stats->set("big.counter.number." + std::to_string(k), k);
        int fd = connectTo(path);
        if (fd >= 0) { (void)!::send(fd, "g\n", 2, MSG_NOSIGNAL); fds.push_back(fd); }
        std::this_thread::sleep_for(std::chrono::milliseconds(200));
      }
      std::this_thread::sleep_for(std::chrono::milliseconds(r.pick(std::vector<int>{0, 5, 50})));
      std::thread closer([&] { std::this_thread::sleep_for(std::chrono::milliseconds(100)); if (r.chance(50)) for (int fd : fds) if (fd >= 0) ::close(fd); });
      stats.reset(); // destructor must complete
      closer.join();
      for (int fd : fds) if (fd >= 0) ::close(fd);
      evEmit(J().str("e", "SEnd"));
      continue;
    }
    stats.reset();
    ::unlink(path.c_str());
    evEmit(J().str("e", "SEnd"));
  }
  evFlush();
  _exit(0);
}
