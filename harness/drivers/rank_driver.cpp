// Conformance driver for C09: the five REAL kill plugins rank sibling cgroups on a simulated cgroupfs
// (two ticks for the history / rate based statistics); the first cgroup whose cgroup.procs is opened
// for killing is recorded together with the abstract statistics for Ranking_Trace.tla.
// usage: rank_driver <trace.ndjson> <seed> <nScenarios> [firstScenario]
#include <fcntl.h>
#include <unistd.h>
#include <cstdio>
#include <cstdlib>
#include <map>
#include <random>
#include <sstream>

#include "../common/evlog.h"
#include "../common/interpose.h"
#include "../common/simfs.h"
#include "../common/vclock.h"
#include "oomd/Log.h"
#include "oomd/OomdContext.h"
#include "oomd/PluginRegistry.h"
#include "oomd/Stats.h"

using namespace verif;
struct Rng {
  std::mt19937_64 g;
  explicit Rng(uint64_t s) : g(s) {}
  int upto(int n) { return (int)(g() % (uint64_t)n); }
  bool chance(int pct) { return upto(100) < pct; }
  template <class T> const T& pick(const std::vector<T>& v) { return v[upto((int)v.size())]; }
};
struct Sib { std::string name; int pref = 0; long long usage1 = 0, usage = 0, prot = 0, swap = 0; int p10 = 0, p60 = 0; long long io = 0, pg = 0; };
static std::string hund(int v) { char b[32]; snprintf(b, sizeof b, "%d.%02d", v / 100, v % 100); return b; }

int main(int argc, char** argv) {
  if (argc < 4) return 2;
  evOpen(argv[1]);
  uint64_t seed = strtoull(argv[2], nullptr, 10);
  int nScn = atoi(argv[3]), firstScn = argc > 4 ? atoi(argv[4]) : 0;
  installAbortHandlers();
  std::ostringstream sink;
  Oomd::Log::get(-1, sink, true);
  { static std::string sp = std::string(getenv("VERIF_TMP") ? getenv("VERIF_TMP") : "/tmp") + "/vstats." + std::to_string(getpid()) + ".sock"; Oomd::Stats::init(sp); }
  vclockEnable(true);
  vclockSet(1000000);
  ip().active = true;
  const std::vector<std::string> plugins = {"kill_by_memory_size_or_growth", "kill_by_memory_size_or_growth", "kill_by_swap_usage",
                                            "kill_by_swap_usage", "kill_by_pressure", "kill_by_io_cost", "kill_by_pg_scan"};
  for (int scn = firstScn; scn < firstScn + nScn; scn++) {
    Rng r(seed * 49979687ULL + scn);
    SimFs fs;
    ip().base = fs.base();
    // families: 0..6 general; 7: growth percentile boundary (many siblings); 8: percent threshold boundary of swap usage
    int family = scn % 9;
    // ONE meminfo location for the whole process, rewritten for every scenario: a snapshot is per load, not per path
    const std::string meminfoPath = std::string(getenv("VERIF_TMP") ? getenv("VERIF_TMP") : "/tmp") + "/rank.meminfo." + std::to_string(getpid());
    std::string plugin = family == 7 ? "kill_by_memory_size_or_growth" : family == 8 ? "kill_by_swap_usage" : plugins[family];
    long long U = r.pick(std::vector<long long>{4096, 1048576, 67108864LL, 4294971392LL}); // bytes per unit
    if (plugin == "kill_by_swap_usage") U = r.pick(std::vector<long long>{1048576, 67108864LL});
    int n = 2 + r.upto(5);
    if (family == 7) n = r.pick(std::vector<int>{5, 10, 20, 25});
    // parameters
    int thr = 0, P = 0, rn = 5, rd = 4; bool biased = false;
    int pctB = 0; long long swapTotalB = 0;
    std::string ratioStr = "1.25";
    Oomd::Engine::PluginArgs args{{"cgroup", "s*"}, {"reap_memory", "false"}};
    if (plugin == "kill_by_memory_size_or_growth") {
      thr = r.pick(std::vector<int>{0, 20, 50, 80, 100}); P = r.pick(std::vector<int>{0, 50, 80, 99});
      if (family == 7) { thr = 95; P = r.pick(std::vector<int>{60, 70, 80, 85, 90, 95, 96}); }
      int ri = r.upto(4); rn = std::vector<int>{1, 5, 3, 2}[ri]; rd = std::vector<int>{1, 4, 2, 1}[ri]; ratioStr = std::vector<std::string>{"1", "1.25", "1.5", "2"}[ri];
      args["size_threshold"] = std::to_string(thr); args["growing_size_percentile"] = std::to_string(P);
      if (ri != 1 || r.chance(50)) args["min_growth_ratio"] = ratioStr;
    } else if (plugin == "kill_by_swap_usage") {
      thr = r.pick(std::vector<int>{0, 1, 5, 10, 25}); biased = r.chance(50);
      // SwapTotal = 100 units (6.25 GiB at 64 MiB per unit: above 2^32), MemTotal = 200 units
      fs.writeAbs(meminfoPath, "MemTotal: " + std::to_string(200 * U / 1024) + " kB\nSwapTotal: " + std::to_string(100 * U / 1024) + " kB\n");
      args["meminfo_location"] = meminfoPath;
      args["threshold"] = r.chance(50) ? std::to_string(thr) + "%" : (U == 1048576 ? std::to_string(thr) : std::to_string(thr * (U / 1048576)) + "M");
      if (U == 67108864LL && r.chance(30)) {
        // whole GiB spelled in tebibytes (2^-10 T is exact in decimal): 16 units of 64 MiB = 1 GiB = 0.0009765625T
        int gib = r.pick(std::vector<int>{1, 2});
        thr = 16 * gib;
        args["threshold"] = gib == 1 ? "0.0009765625T" : "0.001953125T";
      }
      if (family == 8) {
        // SwapTotal is not a multiple of 100 bytes; usages sit exactly at / next to pct% of it
        pctB = r.pick(std::vector<int>{7, 25, 33, 50, 99}); biased = false; args.erase("biased_swap_kill");
        swapTotalB = 2097148LL * 1024 + 4096LL * r.upto(50);
        fs.writeAbs(meminfoPath, "MemTotal: 8388608 kB\nSwapTotal: " + std::to_string(swapTotalB / 1024) + " kB\n");
        args["threshold"] = std::to_string(pctB) + "%";
        thr = 1000;
      }
      if (biased) args["biased_swap_kill"] = "true";
    } else if (plugin == "kill_by_pressure") args["resource"] = "memory";
    // nested: the siblings live under an over-committed parent whose protection is half of what they claim together,
    // so each one's effective protection is HALF its memory.low (the normalisation across siblings is part of the
    // ranking input); with 4 GiB units the intermediate products exceed 2^63
    bool nested = (plugin == "kill_by_memory_size_or_growth" || plugin == "kill_by_swap_usage") && family < 7 && r.chance(40);
    if (nested) args["cgroup"] = "p/s*";
    // descend: the same siblings are reached by RECURSION - the plugin is pointed at the top level ("*": p, marked
    // prefer, and a much bigger unmarked q) and must rank p's children among themselves: thresholds that depend on
    // the sibling set (size_threshold % of the siblings' total, the growing_size_percentile cut-off) are those of the
    // set being ranked, not of the set ranked before it in the same tick
    bool descend = nested && plugin == "kill_by_memory_size_or_growth" && r.chance(50);
    if (descend) { args["cgroup"] = "*"; args["recursive"] = "true"; }
    std::vector<Sib> S(n);
    for (int again = 0; again < 50; again++) {
      bool onBoundary = false;
      for (int i = 0; i < n; i++) {
        Sib& s = S[i];
        s.name = (nested ? "p/s" : "s") + std::to_string(i);
        int x = r.upto(100); s.pref = x < 15 ? 1 : (x < 30 ? -1 : 0);
        s.usage1 = 1 + r.upto(24); s.usage = 1 + r.upto(30);
        if (r.chance(30)) s.usage = s.usage1;                       // not growing
        s.prot = r.chance(40) ? r.upto((int)s.usage) : 0; if (s.prot >= s.usage) s.prot = 0;
        if (plugin == "kill_by_swap_usage") s.prot = 2 * r.upto(nested ? 6 : 8), s.usage = 20;
        if (nested && 2 * s.prot > std::min(s.usage, s.usage1)) s.prot = std::min(s.usage, s.usage1) / 2;
        s.swap = r.pick(std::vector<long long>{0, 1, 5, 6, 10, 11, 25, 26, 40});
        int base = r.pick(std::vector<int>{1000, 5000, 5000, 9000});
        s.p10 = base + r.upto(100); s.p60 = base + r.upto(100);
        s.io = r.pick(std::vector<long long>{0, 1, 2, 2, 7, 30}); s.pg = r.pick(std::vector<long long>{0, 0, 1, 2, 2, 9});
        // previous moving average after 2 warm-up ticks at usage1: usage1 * 7 / 16
        if (4 * s.usage * 16 * rd == (3 * s.usage1 * 7 + s.usage * 16) * rn) onBoundary = true;   // exactly at the ratio: float band
      }
      if (family == 7) {
        // distinct sizes, everybody flat, except a x2 grower right below the top-percentile set
        int k = (n * (100 - P) + 99) / 100;
        for (int i = 0; i < n; i++) { S[i].pref = 0; S[i].prot = 0; S[i].usage = 100 - 2 * i; S[i].usage1 = S[i].usage; }
        if (k < n) { S[k].usage1 = S[k].usage / 2; }
        if (r.chance(30) && k >= 2) S[k - 1].usage1 = S[k - 1].usage / 2;   // sometimes a grower inside the set as well
        onBoundary = false;
      }
      if (family == 8) for (int i = 0; i < n; i++) { S[i].pref = 0; S[i].prot = 0; S[i].swap = 1000 + r.pick(std::vector<int>{-3, -1, 0, 0, 1, 2}); }
      if (!onBoundary) break;
    }
    std::string first;
    bool gotFirst = false;
    bool gapActive = false;
    ip().onOpened = [&](const std::string& path, int flags) {
      if (gotFirst || (flags & O_ACCMODE) != O_RDONLY) return;
      auto pos = path.rfind('/');
      if (path.substr(pos + 1) != "cgroup.procs") return;
      std::string dir = path.substr(0, pos);
      first = dir.substr(fs.root().size() + 1);
      gotFirst = true;
    };
    ip().onKill = [&](int, int) { return KillOutcome{0, 0}; };
    Oomd::ContextParams params;
    params.io_devs["8:0"] = Oomd::DeviceType::SSD;
    params.io_devs["8:16"] = Oomd::DeviceType::HDD;
    params.hdd_coeffs.readbw = 1;
    params.ssd_coeffs.readbw = 1;
    Oomd::OomdContext ctx(params);
    std::unique_ptr<Oomd::Engine::BasePlugin> pl(Oomd::getPluginRegistry().create(plugin));
    pl->setName(plugin);
    if (pl->initPlugin(args, Oomd::PluginConstructionContext(fs.root())) != 0) { fprintf(stderr, "init failed %s\n", plugin.c_str()); return 3; }
    std::map<std::string, long long> ioCum, pgCum;
    // gap: on the middle tick one sibling's counter file cannot be read (or, io.stat, is cut short inside the second
    // device line), so at the deciding tick it has NO sample of the previous tick: its io-cost rate is 0 and it has no
    // pgscan rate at all - whatever it accumulated over the two ticks
    int gapIdx = -1; std::string gapKind;
    if ((plugin == "kill_by_io_cost" || plugin == "kill_by_pg_scan") && r.chance(45)) {
      gapIdx = r.upto(n); gapKind = plugin == "kill_by_io_cost" && r.chance(50) ? "cut" : "unreadable";
      S[gapIdx].io = 50 + r.upto(50); S[gapIdx].pg = 50 + r.upto(50);   // a big true increase: tempting if the stale sample is used
    }
    const std::string gapFile = plugin == "kill_by_io_cost" ? "io.stat" : "memory.stat";
    ip().onOpen = [&](const std::string& path, int) -> int {
      if (gapIdx < 0 || gapKind != "unreadable" || !gapActive) return 0;
      std::string want = "/" + S[gapIdx].name + "/" + gapFile;
      return path.size() >= want.size() && path.compare(path.size() - want.size(), want.size(), want) == 0 ? EACCES : 0;
    };
    const int kTicks = 3; // 2 warm-up ticks at usage1, then the deciding tick
    for (int tick = 1; tick <= kTicks; tick++) {
      if (nested) {
        long long sumProt = 0, sumUse = 0;
        for (auto& s : S) { sumProt += s.prot; sumUse += std::max(s.usage, s.usage1); }
        fs.mkcg("p");
        fs.write("p", "memory.current", std::to_string((sumUse + 2 * sumProt + 1) * U) + "\n");
        fs.write("p", "memory.low", std::to_string(sumProt * U) + "\n");   // the children claim 2 * sumProt
        fs.write("p", "memory.min", "0\n");
        fs.write("p", "cgroup.events", "populated 1\n");
        if (descend) {
          fs.setXattr("p", "trusted.oomd_prefer", "1");
          fs.mkcg("q");
          fs.write("q", "memory.current", std::to_string((40 * sumUse + 1000) * U) + "\n");
          fs.write("q", "memory.low", "0\n"); fs.write("q", "memory.min", "0\n");
          fs.write("q", "cgroup.events", "populated 1\n");
          fs.write("q", "cgroup.procs", "999\n");
          fs.write("q", "memory.stat", "anon 1\nfile 1\npgscan 0\n");
          fs.write("q", "memory.pressure", "some avg10=0.00 avg60=0.00 avg300=0.00 total=0\nfull avg10=0.00 avg60=0.00 avg300=0.00 total=0\n");
        }
      }
      for (auto& s : S) {
        fs.mkcg(s.name);
        long long use = tick < kTicks ? s.usage1 : s.usage;
        fs.write(s.name, "memory.current", std::to_string(use * U) + "\n");
        // in the warm-up ticks the protections are different ones (a sum over siblings remembered from an earlier
        // tick would be stale at the deciding tick)
        long long lowUnits = (nested ? 2 : 1) * s.prot;
        if (nested && tick < kTicks) lowUnits = 1;   // very different from the deciding tick's claims
        fs.write(s.name, "memory.low", std::to_string(lowUnits * U) + "\n");
        fs.write(s.name, "memory.min", "0\n");
        fs.write(s.name, "memory.swap.current", family == 8
            ? std::to_string((long long)((__int128)swapTotalB * pctB / 100) + (s.swap - 1000)) + "\n" : std::to_string(s.swap * U) + "\n");
        fs.write(s.name, "memory.swap.max", "max\n");
        fs.write(s.name, "memory.pressure", "some avg10=0.00 avg60=0.00 avg300=0.00 total=0\nfull avg10=" + hund(s.p10) + " avg60=" + hund(s.p60) + " avg300=0.00 total=0\n");
        ioCum[s.name] += tick < kTicks ? 1000 + r.upto(50) : s.io; pgCum[s.name] += tick < kTicks ? 500 + r.upto(50) : s.pg;
        {
          std::string l0 = "8:0 rbytes=" + std::to_string(ioCum[s.name]) + " wbytes=0 rios=0 wios=0 dbytes=0 dios=0\n";
          std::string l1 = "8:16 rbytes=0 wbytes=0 rios=0 wios=0 dbytes=0 dios=0\n";
          bool cut = gapIdx >= 0 && gapKind == "cut" && (&s - &S[0]) == gapIdx && tick == kTicks - 1;
          fs.write(s.name, "io.stat", cut ? l0 + "8:16 rbytes=0 wby" : l0 + l1);
        }
        fs.write(s.name, "memory.stat", "anon 1\nfile 1\npgscan " + std::to_string(pgCum[s.name]) + "\n");
        fs.write(s.name, "cgroup.events", "populated 1\n");
        fs.write(s.name, "cgroup.procs", std::to_string(1000 + (&s - &S[0])) + "\n");
        for (auto x : {"trusted.oomd_prefer", "trusted.oomd_avoid"}) fs.clearXattr(s.name, x);
        if (s.pref == 1) fs.setXattr(s.name, "trusted.oomd_prefer", "1");
        if (s.pref == -1) fs.setXattr(s.name, "trusted.oomd_avoid", "1");
      }
      gapActive = tick == kTicks - 1;
      ctx.refresh();
      ctx.bumpCurrentTick();
      pl->prerun(ctx);
      // something else (a dump, another plugin) looks at the effective usage of the siblings in every tick
      if (nested && tick < kTicks)
        for (auto& s : S) if (auto c = ctx.addToCacheAndGet(Oomd::CgroupPath(fs.root(), s.name))) (void)c->get().effective_usage();
      if (tick == kTicks || (plugin == "kill_by_pg_scan" && tick == kTicks - 1)) pl->run(ctx);
      vclockAdvance(1000);
    }
    if (gapIdx >= 0) { S[gapIdx].io = 0; S[gapIdx].pg = 0; }
    std::vector<std::string> sj;
    for (auto& s : S)
      sj.push_back(J().str("name", s.name).num("pref", s.pref).num("usage", s.usage).num("prot", s.prot).num("avgn", s.usage1 * 7).num("avgd", 16)
                       .num("swap", s.swap).num("p10", s.p10).num("p60", s.p60).num("io", s.io).num("pg", s.pg).done());
    evEmit(J().str("e", "SReset").num("scn", scn).num("seed", (long long)seed));
    evEmit(J().str("e", "RankCase").str("U", std::to_string(U))
               .raw("P", J().str("plugin", plugin).num("thr", thr).num("P", P).num("rn", rn).num("rd", rd).boolean("biased", biased).num("sn", 1).num("sd", 2).done())
               .raw("S", J::arr(sj)).boolean("nested", nested).boolean("descend", descend).num("gap", gapIdx).str("gapKind", gapKind).str("first", first).raw("args", [&] { std::vector<std::string> kv; for (auto& [k, v] : args) kv.push_back(J::quote(k + "=" + v)); return J::arr(kv); }()));
    evEmit(J().str("e", "SEnd"));
    ip().onOpened = nullptr; ip().onKill = nullptr; ip().onOpen = nullptr;
    ::unlink(meminfoPath.c_str());
  }
  evFlush();
  _exit(0);
}
