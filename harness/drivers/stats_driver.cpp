// Conformance driver for C15: the public accessors of the REAL CgroupContext / OomdContext are
// queried on a simulated cgroupfs whose files are rendered from an abstract kernel state (with a
// scale factor so that concrete values span the int64 range, both PSI formats, shuffled key order,
// extra keys, "max" literals, with and without d_type).  Every answer is recorded for
// CgroupStats_Trace.tla, which recomputes it from the abstract kernel state and the tick history.
//
// usage: stats_driver <trace.ndjson> <seed> <nScenarios> [firstScenario]
#include <unistd.h>
#include <algorithm>
#include <cmath>
#include <cstdio>
#include <cstdlib>
#include <map>
#include <random>
#include <set>
#include <sstream>

#include "../common/evlog.h"
#include "../common/interpose.h"
#include "../common/simfs.h"
#include "../common/vclock.h"
#include "oomd/Log.h"
#include "oomd/OomdContext.h"

using namespace verif;

struct Rng {
  std::mt19937_64 g;
  explicit Rng(uint64_t s) : g(s) {}
  int upto(int n) { return (int)(g() % (uint64_t)n); }
  bool chance(int pct) { return upto(100) < pct; }
  template <class T> const T& pick(const std::vector<T>& v) { return v[upto((int)v.size())]; }
};
static const long long INF = 1000000000LL;

struct Psi { int a10, a60, a300, total; };
struct Dev { std::string dev; int rbytes, wbytes, rios, wios, dbytes, dios; };
struct Node {
  long long gen = 0;
  long long cur, swapcur, swapmax, low, min, high, max, anon, file, shmem, pgscan;
  int dying; bool pop, oomg; int pref; std::set<std::string> prefX;
  Psi mf, ms, iof, ios;
  std::vector<Dev> io;
};

static std::string psiJ(const Psi& p) { return J().num("a10", p.a10).num("a60", p.a60).num("a300", p.a300).num("total", p.total).done(); }
static std::string nodeJ(const std::string& path, const Node& n) {
  std::vector<std::string> io;
  for (auto& d : n.io) io.push_back(J().str("dev", d.dev).num("rbytes", d.rbytes).num("wbytes", d.wbytes).num("rios", d.rios)
                                        .num("wios", d.wios).num("dbytes", d.dbytes).num("dios", d.dios).done());
  return J().raw("path", pathJson(path)).raw("rec", J().num("gen", n.gen).num("current_usage", n.cur).num("swap_usage", n.swapcur)
      .num("swap_max", n.swapmax).num("memory_low", n.low).num("memory_min", n.min).num("memory_high", n.high)
      .num("memory_max", n.max).raw("mstat", J().num("anon", n.anon).num("file", n.file).num("shmem", n.shmem).num("pgscan", n.pgscan).done())
      .num("nr_dying_descendants", n.dying).boolean("is_populated", n.pop).boolean("oom_group", n.oomg)
      .num("kill_preference", n.pref).raw("mem_pressure", psiJ(n.mf)).raw("mem_pressure_some", psiJ(n.ms))
      .raw("io_pressure", psiJ(n.iof)).raw("io_pressure_some", psiJ(n.ios)).raw("io_stat", J::arr(io)).done()).done();
}

struct World {
  SimFs fs;
  std::map<std::string, Node> nodes;
  long long U = 1;
  bool experimentalPsi = false;
  Rng& r;
  explicit World(Rng& rr) : r(rr) {}
  std::string sz(long long v) const { return v >= INF ? std::string("max") : std::to_string((__int128)v * U > (__int128)INT64_MAX ? INT64_MAX : v * U); }
  std::string psiText(const Psi& s, const Psi& f) const {
    char b[512];
    if (experimentalPsi)
      snprintf(b, sizeof b, "aggr 316016073\nsome %d.%02d %d.%02d %d.%02d\nfull %d.%02d %d.%02d %d.%02d\n", s.a10 / 100, s.a10 % 100, s.a60 / 100,
               s.a60 % 100, s.a300 / 100, s.a300 % 100, f.a10 / 100, f.a10 % 100, f.a60 / 100, f.a60 % 100, f.a300 / 100, f.a300 % 100);
    else
      snprintf(b, sizeof b, "some avg10=%d.%02d avg60=%d.%02d avg300=%d.%02d total=%d\nfull avg10=%d.%02d avg60=%d.%02d avg300=%d.%02d total=%d\n",
               s.a10 / 100, s.a10 % 100, s.a60 / 100, s.a60 % 100, s.a300 / 100, s.a300 % 100, s.total, f.a10 / 100, f.a10 % 100,
               f.a60 / 100, f.a60 % 100, f.a300 / 100, f.a300 % 100, f.total);
    return b;
  }
  void render(const std::string& p) {
    Node& n = nodes[p];
    fs.mkcg(p);
    n.gen = fs.gen(p) % 1000000007LL;
    std::string nl = r.chance(80) ? "\n" : "";
    fs.write(p, "memory.current", sz(n.cur) + nl);
    fs.write(p, "memory.swap.current", sz(n.swapcur) + nl);
    fs.write(p, "memory.swap.max", sz(n.swapmax) + nl);
    fs.write(p, "memory.low", sz(n.low) + nl);
    fs.write(p, "memory.min", sz(n.min) + nl);
    fs.write(p, "memory.high", sz(n.high) + nl);
    fs.write(p, "memory.max", sz(n.max) + nl);
    std::vector<std::string> lines = {"anon " + sz(n.anon), "file " + sz(n.file), "shmem " + sz(n.shmem), "pgscan " + std::to_string(n.pgscan),
                                      "kernel_stack 16384", "pgfault 12345", "workingset_refault_anon 0", "thp_fault_alloc 3"};
    std::shuffle(lines.begin(), lines.end(), r.g);
    std::string ms; for (auto& l : lines) ms += l + "\n";
    fs.write(p, "memory.stat", ms);
    fs.write(p, "cgroup.stat", std::string(r.chance(50) ? "nr_descendants 3\n" : "") + "nr_dying_descendants " + std::to_string(n.dying) + "\n");
    fs.write(p, "cgroup.events", std::string(r.chance(50) ? "frozen 0\n" : "") + "populated " + (n.pop ? "1" : "0") + "\n");
    fs.write(p, "memory.oom.group", n.oomg ? "1\n" : "0\n");
    for (auto x : {"trusted.oomd_prefer", "user.oomd_prefer", "trusted.oomd_avoid", "user.oomd_avoid"}) {
      // a mark counts by its presence, whatever its value - also an empty one (setfattr -n NAME without -v)
      if (n.prefX.count(x)) fs.setXattr(p, x, (std::hash<std::string>{}(p + x) % 3 == 0) ? "" : "1"); else fs.clearXattr(p, x);
    }
    fs.write(p, "memory.pressure", psiText(n.ms, n.mf));
    fs.write(p, "io.pressure", psiText(n.ios, n.iof));
    std::string io;
    for (auto& d : n.io) io += d.dev + " rbytes=" + std::to_string(d.rbytes) + " wbytes=" + std::to_string(d.wbytes) + " rios=" + std::to_string(d.rios) +
                               " wios=" + std::to_string(d.wios) + " dbytes=" + std::to_string(d.dbytes) + " dios=" + std::to_string(d.dios) + "\n";
    fs.write(p, "io.stat", io);
  }
  Psi genPsi() { Psi p{r.upto(10000), r.upto(10000), r.upto(10000), experimentalPsi ? -1 : r.upto(1000000)}; return p; }
  long long small() { return r.pick(std::vector<long long>{0, 0, 1, 2, 3, 5, 8, 13, 40}); }
  long long lim() { return r.chance(35) ? INF : small(); }
  Node genNode() {
    Node n;
    n.cur = small(); n.swapcur = small(); n.swapmax = r.chance(20) ? 0 : lim(); n.low = r.chance(20) ? INF : small(); n.min = small();
    n.high = lim(); n.max = lim(); n.anon = small(); n.file = small(); n.shmem = small(); n.pgscan = r.upto(1000);
    n.dying = r.upto(4); n.pop = r.chance(60); n.oomg = r.chance(30);
    int x = r.upto(100);
    if (x < 15) n.prefX = {"trusted.oomd_prefer"}; else if (x < 25) n.prefX = {"user.oomd_prefer"};
    else if (x < 40) n.prefX = {"trusted.oomd_avoid"}; else if (x < 50) n.prefX = {"user.oomd_avoid"};
    else if (x < 58) n.prefX = {"user.oomd_avoid", "trusted.oomd_prefer"};
    bool p = n.prefX.count("trusted.oomd_prefer") || n.prefX.count("user.oomd_prefer");
    n.pref = p ? 1 : (n.prefX.empty() ? 0 : -1);
    n.mf = genPsi(); n.ms = genPsi(); n.iof = genPsi(); n.ios = genPsi();
    for (auto d : {"8:0", "8:16", "9:9"}) if (r.chance(75)) n.io.push_back({d, r.upto(20), r.upto(20), r.upto(20), r.upto(20), r.upto(20), r.upto(20)});
    return n;
  }
  std::string treeJ() { std::vector<std::string> v; for (auto& [p, n] : nodes) v.push_back(nodeJ(p, n)); return J::arr(v); }
};

int main(int argc, char** argv) {
  if (argc < 4) return 2;
  evOpen(argv[1]);
  uint64_t seed = strtoull(argv[2], nullptr, 10);
  int nScn = atoi(argv[3]), firstScn = argc > 4 ? atoi(argv[4]) : 0;
  installAbortHandlers();
  std::ostringstream sink;
  Oomd::Log::get(-1, sink, true);
  ip().active = true;
  static const std::vector<std::string> names = {"a", "b", "c.slice", "d-1"};
  for (int scn = firstScn; scn < firstScn + nScn; scn++) {
    Rng r(seed * 104729ULL + scn);
    World W(r);
    ip().base = W.fs.base();
    ip().clearDType = r.chance(30);
    W.U = r.pick(std::vector<long long>{1, 1, 1, 4096, 2147483655LL, 1099511627776LL});
    W.experimentalPsi = r.chance(30);
    int top = 1 + r.upto(3);
    for (int i = 0; i < top; i++) {
      std::string p = names[i];
      W.nodes[p] = W.genNode();
      if (r.chance(70)) for (int c = 0; c < 1 + r.upto(3); c++) {
        std::string q = p + "/" + names[r.upto(4)];
        if (W.nodes.count(q)) continue;
        W.nodes[q] = W.genNode();
        if (r.chance(35)) { std::string q2 = q + "/" + names[r.upto(4)]; W.nodes[q2] = W.genNode(); }
      }
    }
    for (auto& [p, n] : W.nodes) W.render(p);
    long long swapTotal = r.pick(std::vector<long long>{0, 8, 40, 100}), swapUsed = swapTotal ? r.upto((int)swapTotal + 1) : 0;
    Oomd::ContextParams params;
    // every execution has its own device / coefficient configuration (one process, many contexts)
    std::vector<std::string> devJ;
    for (const char* dev : {"8:0", "8:16"}) {
      int k = r.upto(5);   // ssd, ssd, hdd, hdd, not configured
      if (k == 4) continue;
      params.io_devs[dev] = k < 2 ? Oomd::DeviceType::SSD : Oomd::DeviceType::HDD;
      devJ.push_back(J().str("dev", dev).str("kind", k < 2 ? "ssd" : "hdd").done());
    }
    int sc[6], hc[6];
    for (int i = 0; i < 6; i++) { sc[i] = r.upto(8); hc[i] = r.upto(8); }
    params.ssd_coeffs = {(double)sc[0], (double)sc[1], (double)sc[2], (double)sc[3], (double)sc[4], (double)sc[5]};
    params.hdd_coeffs = {(double)hc[0], (double)hc[1], (double)hc[2], (double)hc[3], (double)hc[4], (double)hc[5]};
    auto coeffJ = [](int* c) { return J().num("read_iops", c[0]).num("readbw", c[1]).num("write_iops", c[2]).num("writebw", c[3]).num("trim_iops", c[4]).num("trimbw", c[5]).done(); };
    Oomd::OomdContext ctx(params);
    auto setSys = [&] { Oomd::SystemContext s; s.swaptotal = (uint64_t)(swapTotal * W.U); s.swapused = (uint64_t)(swapUsed * W.U); ctx.setSystemContext(s); };
    setSys();
    evEmit(J().str("e", "SReset").num("scn", scn).num("seed", (long long)seed).str("U", std::to_string(W.U))
               .boolean("dtype", !ip().clearDType).boolean("experimentalPsi", W.experimentalPsi)
               .raw("K", W.treeJ()).raw("sys", J().num("swaptotal", swapTotal).num("swapused", swapUsed).done())
               .raw("cfg", J().raw("devs", J::arr(devJ)).raw("ssd", coeffJ(sc)).raw("hdd", coeffJ(hc)).num("decay", 4).done()));
    std::vector<std::string> fields = {"current_usage", "swap_usage", "swap_max", "memory_low", "memory_min", "memory_high", "memory_max",
        "anon_usage", "file_usage", "shmem_usage", "pg_scan_cumulative", "nr_dying_descendants", "is_populated", "oom_group",
        "kill_preference", "children", "id", "mem_pressure", "mem_pressure_some", "io_pressure", "io_pressure_some",
        "effective_swap_max", "effective_swap_free", "effective_swap_util_ppm", "io_cost_cumulative", "io_cost_rate", "pg_scan_rate"};
    if (W.U == 1) for (auto f : {"memory_protection", "average_usage", "effective_usage", "average_usage", "memory_protection"}) fields.push_back(f);
    auto scaled = [&](std::optional<int64_t> v) {
      if (!v) return J().boolean("has", false).num("v", 0).done();
      if (*v == INT64_MAX) return J().boolean("has", true).num("v", INF).done();
      long long q = *v / W.U, rem = *v % W.U;
      return J().boolean("has", true).num("v", rem == 0 ? q : -777777).done();
    };
    auto plain = [&](std::optional<int64_t> v) { return J().boolean("has", v.has_value()).num("v", v ? *v : 0).done(); };
    auto psi = [&](const std::optional<Oomd::ResourcePressure>& p) {
      if (!p) return J().boolean("has", false).num("v", 0).done();
      return J().boolean("has", true).raw("v", J().num("a10", lround(p->sec_10 * 100)).num("a60", lround(p->sec_60 * 100))
                 .num("a300", lround(p->sec_300 * 100)).num("total", p->total ? (long long)p->total->count() : -1).done()).done();
    };
    auto query = [&](const std::string& p, const std::string& f) {
      auto ref = ctx.addToCacheAndGet(Oomd::CgroupPath(W.fs.root(), p));
      if (!ref) { evEmit(J().str("e", "QM").raw("p", pathJson(p))); return; }
      const Oomd::CgroupContext& c = ref->get();
      std::string v;
      if (f == "current_usage") v = scaled(c.current_usage());
      else if (f == "swap_usage") v = scaled(c.swap_usage());
      else if (f == "swap_max") v = scaled(c.swap_max());
      else if (f == "memory_low") v = scaled(c.memory_low());
      else if (f == "memory_min") v = scaled(c.memory_min());
      else if (f == "memory_high") v = scaled(c.memory_high());
      else if (f == "memory_max") v = scaled(c.memory_max());
      else if (f == "anon_usage") v = scaled(c.anon_usage());
      else if (f == "file_usage") v = scaled(c.file_usage());
      else if (f == "shmem_usage") v = scaled(c.shmem_usage());
      else if (f == "pg_scan_cumulative") v = plain(c.pg_scan_cumulative());
      else if (f == "nr_dying_descendants") v = plain(c.nr_dying_descendants());
      else if (f == "is_populated") { auto x = c.is_populated(); v = J().boolean("has", x.has_value()).boolean("v", x.value_or(false)).done(); }
      else if (f == "oom_group") { auto x = c.oom_group(); v = J().boolean("has", x.has_value()).boolean("v", x.value_or(false)).done(); }
      else if (f == "kill_preference") { auto x = c.kill_preference(); v = J().boolean("has", x.has_value()).num("v", x ? (int)*x : 0).done(); }
      else if (f == "children") { auto& x = c.children(); std::vector<std::string> k; if (x) k = *x; std::sort(k.begin(), k.end());
                                  v = J().boolean("has", x.has_value()).raw("v", J::strArr(k)).done(); }
      else if (f == "id") { auto x = c.id(); v = J().boolean("has", x.has_value()).num("v", x ? (long long)(*x % 1000000007ULL) : 0).done(); }
      else if (f == "mem_pressure") v = psi(c.mem_pressure());
      else if (f == "mem_pressure_some") v = psi(c.mem_pressure_some());
      else if (f == "io_pressure") v = psi(c.io_pressure());
      else if (f == "io_pressure_some") v = psi(c.io_pressure_some());
      else if (f == "effective_swap_max") v = scaled(c.effective_swap_max());
      else if (f == "effective_swap_free") v = scaled(c.effective_swap_free());
      else if (f == "effective_swap_util_ppm") { auto x = c.effective_swap_util_pct(); v = J().boolean("has", x.has_value()).num("v", x ? llround(*x * 1e6) : 0).done(); }
      else if (f == "io_cost_cumulative") { auto x = c.io_cost_cumulative(); v = J().boolean("has", x.has_value()).num("v", x && *x == std::floor(*x) ? (long long)*x : -777777).done(); }
      else if (f == "io_cost_rate") { auto x = c.io_cost_rate(); v = J().boolean("has", x.has_value()).num("v", x && *x == std::floor(*x) ? (long long)*x : -777777).done(); }
      else if (f == "pg_scan_rate") v = plain(c.pg_scan_rate());
      else if (f == "memory_protection") v = plain(c.memory_protection());
      else if (f == "average_usage") v = plain(c.average_usage());
      else if (f == "effective_usage") v = plain(c.effective_usage());
      evEmit(J().str("e", "Q").raw("p", pathJson(p)).str("f", f).raw("r", v));
    };
    int nTicks = 2 + r.upto(4);
    std::string relist; // cgroup whose listing failed at the end of the previous tick
    for (int t = 0; t < nTicks; t++) {
      if (t > 0) {
        // between ticks: the tree changes, then the context is refreshed
        bool changed = false;
        std::vector<std::string> paths; for (auto& [p, n] : W.nodes) paths.push_back(p);
        for (int e = 0; e < r.upto(3) && !paths.empty(); e++) {
          std::string p = r.pick(paths);
          if (!W.nodes.count(p)) continue;
          int c = r.upto(3);
          std::vector<std::string> sub; for (auto& [q, m] : W.nodes) if (q == p || q.compare(0, p.size() + 1, p + "/") == 0) sub.push_back(q);
          if (c == 0) { for (auto& q : sub) W.nodes.erase(q); W.fs.rmcg(p); changed = true; }
          else if (c == 1) { Node keep = W.nodes[p]; for (auto& q : sub) W.nodes.erase(q); W.fs.rmcg(p); W.nodes[p] = keep; W.render(p); changed = true; }
          else { std::string q = p + "/" + names[r.upto(4)]; if (!W.nodes.count(q) && std::count(q.begin(), q.end(), '/') < 3) { W.nodes[q] = W.genNode(); W.render(q); changed = true; } }
        }
        if (changed) evEmit(J().str("e", "Tree").raw("K", W.treeJ()));
        if (r.chance(40)) { swapUsed = swapTotal ? r.upto((int)swapTotal + 1) : 0; setSys();
                            evEmit(J().str("e", "Sys").raw("sys", J().num("swaptotal", swapTotal).num("swapused", swapUsed).done())); }
        ctx.refresh();
        evEmit(J().str("e", "Refresh"));
      }
      // the listing that failed at the end of the previous tick left nothing behind: this tick's listing is complete
      if (!relist.empty() && W.nodes.count(relist)) query(relist, "children");
      relist.clear();
      int nops = 4 + r.upto(25);
      for (int o = 0; o < nops; o++) {
        std::vector<std::string> paths; for (auto& [p, n] : W.nodes) paths.push_back(p);
        if (paths.empty()) break;
        int x = r.upto(100);
        std::string p = r.pick(paths);
        if (x < 78) query(p, r.pick(fields));
        else if (x < 82) query(p + "/nonexistent", "current_usage");
        else { // the kernel changes the files of a cgroup, possibly in the middle of a tick
          Node nn = W.genNode(); nn.gen = W.nodes[p].gen; W.nodes[p] = nn; W.render(p);
          evEmit(J().str("e", "KC").raw("n", nodeJ(p, W.nodes[p])));
        }
      }
      // last access of the tick (not of the last tick): the listing of one cgroup's directory fails half way - a control
      // file vanishes between readdir returning its name and the fstatat on it (a controller being disabled); the file
      // is back right afterwards.  Nothing of this listing is reported.
      if (t + 1 < nTicks && r.chance(35)) {
        std::vector<std::string> paths; for (auto& [p, n] : W.nodes) paths.push_back(p);
        if (!paths.empty()) {
          std::string p = r.pick(paths);
          if (auto ref = ctx.addToCacheAndGet(Oomd::CgroupPath(W.fs.root(), p))) {
            std::string dir = W.fs.abs(p), victim, saved; bool fired = false;
            ip().onReaddir = [&](const std::string& d, const char* name) {
              if (fired || d != dir) return;
              std::string nm(name);
              if (nm.rfind("memory.", 0) != 0 && nm.rfind("io.", 0) != 0) return;
              fired = true; victim = nm; saved = W.fs.read(p, nm); W.fs.remove(p, nm);
            };
            (void)ref->get().children();
            ip().onReaddir = nullptr;
            if (fired) { W.fs.write(p, victim, saved); relist = p; evEmit(J().str("e", "ListFault").raw("p", pathJson(p)).str("file", victim)); }
          }
        }
      }
    }
    evEmit(J().str("e", "SEnd"));
  }
  evFlush();
  _exit(0);
}
