// Conformance driver for the kill path (C01 C03 C04 C07 C17): runs the five REAL kill plugins
// through the real engine on a simulated cgroup tree, with kill(2), xattrs, control-file writes,
// pidfd_open/process_mrelease and the kmsg sink observed at the libc boundary, and scripted
// prekill hooks.  Records the events consumed by KillAction_Trace.tla.
//
// usage: kill_driver <trace.ndjson> <seed> <nScenarios> <profile> [firstScenario]
#include <fcntl.h>
#include <signal.h>
#include <unistd.h>
#include <algorithm>
#include <cstdio>
#include <cstdlib>
#include <fstream>
#include <iostream>
#include <map>
#include <random>
#include <set>
#include <sstream>
#include <sys/syscall.h>

#include "../common/evlog.h"
#include "../common/interpose.h"
#include "../common/scripted.h"
#include "../common/simfs.h"
#include "../common/vclock.h"

#include "oomd/Log.h"
#include "oomd/OomdContext.h"
#include "oomd/PluginRegistry.h"
#include "oomd/Stats.h"
#include "oomd/config/ConfigCompiler.h"
#include "oomd/config/ConfigTypes.h"
#include "oomd/engine/Engine.h"
#include "oomd/include/CoreStats.h"

using namespace verif;
namespace IR = Oomd::Config2::IR;

static std::string g_rsName = "r0", g_dgName = "g0";
static bool g_lastAsync = false; // the kill plugin's last run() returned ASYNC_PAUSED (a hook is outstanding / second sampling tick)
static bool g_inRun = false; // inside the kill plugin's run(): mid-run environment events are injected only here
// ---------------------------------------------------------------- wrapper plugin
// Forwards everything to a real plugin created from the registry and logs run entry / result.
class WrapPlugin : public Oomd::Engine::BasePlugin {
 public:
  int init(const Oomd::Engine::PluginArgs& args, const Oomd::PluginConstructionContext& c) override {
    auto a = args;
    auto it = a.find("inner");
    if (it == a.end()) return 1;
    std::string innerName = it->second;
    a.erase(it);
    inner_.reset(Oomd::getPluginRegistry().create(innerName));
    if (!inner_) return 1;
    inner_->setName(innerName);
    return inner_->initPlugin(a, c);
  }
  void prerun(Oomd::OomdContext& ctx) override { inner_->prerun(ctx); }
  Oomd::Engine::PluginRet run(Oomd::OomdContext& ctx) override {
    auto& ac = ctx.getActionContext();
    long long dl = -1;
    if (ac.prekill_hook_timeout_ts)
      dl = std::chrono::duration_cast<std::chrono::milliseconds>(ac.prekill_hook_timeout_ts->time_since_epoch()).count();
    evEmit(J().str("e", "KRun").num("deadline", dl).str("rs", ac.ruleset_name == g_rsName ? "r0" : "?" + ac.ruleset_name.substr(0, 20))
               .str("dg", ac.detectorgroup == g_dgName ? "g0" : "?" + ac.detectorgroup.substr(0, 20))
               .boolean("hasRs", ctx.getInvokingRuleset().has_value()).num("t", vclockNowMs()));
    g_inRun = true;
    auto r = inner_->run(ctx);
    g_inRun = false;
    g_lastAsync = (int)r == 2;
    static const char* names[] = {"CONTINUE", "STOP", "ASYNC"};
    evEmit(J().str("e", "KRet").str("ret", names[(int)r]).num("t", vclockNowMs()));
    return r;
  }
 private:
  std::unique_ptr<Oomd::Engine::BasePlugin> inner_;
};
static bool g_wrapReg = Oomd::getPluginRegistry().add("verif_wrap", [] { return (Oomd::Engine::BasePlugin*)new WrapPlugin(); });

// ---------------------------------------------------------------- scenario
struct Rng {
  std::mt19937_64 g;
  explicit Rng(uint64_t s) : g(s) {}
  int upto(int n) { return (int)(g() % (uint64_t)n); }
  bool chance(int pct) { return upto(100) < pct; }
  template <class T> const T& pick(const std::vector<T>& v) { return v[upto((int)v.size())]; }
};

enum PidKind { DIES, SURVIVES, ESRCH_, EPERM_ };
struct NodeS {
  int gen = 0;           // filled from SimFs
  std::set<std::string> prefX; // preference xattrs present
  int oomg = 0;          // 0 absent-or-0, 1
  bool pop = true;
  int key = 0;
  std::vector<int> pids; // content of cgroup.procs (may contain 0)
  long long cum = 0;     // cumulative counter for rate based plugins
  bool sampled = false;  // had a sample on the previous tick
};
struct Scn {
  std::map<std::string, NodeS> nodes; // rel path -> node
};

static std::string charsJson(const std::string& s) {
  std::vector<std::string> cs;
  for (char c : s) cs.push_back(J::quote(std::string(1, c)));
  return J::arr(cs);
}
// "a/b" -> [["a"],["b"]] with every component a list of characters
static std::string pathChars(const std::string& rel) {
  std::vector<std::string> comps;
  std::string cur;
  for (char c : rel + "/") {
    if (c == '/') { if (!cur.empty()) comps.push_back(charsJson(cur)); cur.clear(); }
    else cur += c;
  }
  return J::arr(comps);
}

static int prefOf(const NodeS& n) {
  bool p = n.prefX.count("trusted.oomd_prefer") || n.prefX.count("user.oomd_prefer");
  bool a = n.prefX.count("trusted.oomd_avoid") || n.prefX.count("user.oomd_avoid");
  return p ? 1 : (a ? -1 : 0);
}

struct Driver {
  Rng r;
  SimFs fs;
  Scn w;
  std::string plugin;
  std::map<int, PidKind> pidKind;
  std::map<int, std::string> pidHome;
  int nextPid = 100;
  bool firstTick = true;
  explicit Driver(uint64_t seed) : r(seed) {}

  bool eligOf(const NodeS& n) const {
    if (plugin == "kill_by_swap_usage") return n.key > 0;
    if (plugin == "kill_by_pg_scan") return n.key > 0;
    return true;
  }
  int effKey(const NodeS& n) const {
    if ((plugin == "kill_by_io_cost" || plugin == "kill_by_pg_scan") && !n.sampled) return 0;
    return n.key;
  }
  std::string worldJson() {
    std::vector<std::string> o;
    for (auto& [p, n] : w.nodes) {
      NodeS eff = n; eff.key = effKey(n);
      o.push_back(J().raw("path", pathChars(p)).num("gen", fs.gen(p) % 1000000007LL).num("pref", prefOf(n))
                      .boolean("oomg", n.oomg == 1).boolean("pop", n.pop).num("key", eff.key)
                      .boolean("elig", eligOf(eff)).num("pidsCur", (long long)n.pids.size()).done());
    }
    return J::arr(o);
  }
  void writeProcs(const std::string& p) {
    std::string s;
    for (int pid : w.nodes[p].pids) s += std::to_string(pid) + "\n";
    fs.write(p, "cgroup.procs", s);
  }
  void render(const std::string& p, bool fresh) {
    NodeS& n = w.nodes[p];
    if (fresh) {
      fs.mkcg(p);
      for (auto f : {"memory.min", "memory.low"}) fs.write(p, f, "0\n");
      for (auto f : {"memory.high", "memory.max", "memory.swap.max"}) fs.write(p, f, "max\n");
      fs.write(p, "cgroup.freeze", "0\n");
      fs.write(p, "cgroup.kill", "");
      fs.write(p, "cgroup.stat", "nr_descendants 0\nnr_dying_descendants 0\n");
      fs.write(p, "io.pressure", "some avg10=0.00 avg60=0.00 avg300=0.00 total=0\nfull avg10=0.00 avg60=0.00 avg300=0.00 total=0\n");
    }
    for (auto x : {"trusted.oomd_prefer", "user.oomd_prefer", "trusted.oomd_avoid", "user.oomd_avoid"}) {
      if (n.prefX.count(x)) fs.setXattr(p, x, (std::hash<std::string>{}(p + x) % 3 == 0) ? "" : "1"); else fs.clearXattr(p, x);
    }
    if (n.oomg >= 0) fs.write(p, "memory.oom.group", n.oomg ? "1\n" : "0\n");
    fs.write(p, "cgroup.events", std::string("populated ") + (n.pop ? "1" : "0") + "\nfrozen 0\n");
    fs.write(p, "pids.current", std::to_string(n.pids.size()) + "\n");
    writeProcs(p);
    long long K = n.key;
    // the abstract key is rendered into the statistic the configured plugin ranks by
    fs.write(p, "memory.current", std::to_string(plugin == "kill_by_memory_size_or_growth" ? K * 1048576 + 4096 : 8192) + "\n");
    fs.write(p, "memory.swap.current", std::to_string(plugin == "kill_by_swap_usage" ? K * 1048576 : 0) + "\n");
    int pk = plugin == "kill_by_pressure" ? (int)K * 10 : 0;
    char buf[256];
    snprintf(buf, sizeof buf, "some avg10=%d.00 avg60=%d.00 avg300=0.00 total=0\nfull avg10=%d.00 avg60=%d.00 avg300=0.00 total=0\n", pk, pk, pk, pk);
    fs.write(p, "memory.pressure", buf);
    n.cum += K * 1000;
    fs.write(p, "io.stat", "8:0 rbytes=" + std::to_string(plugin == "kill_by_io_cost" ? n.cum : 0) + " wbytes=0 rios=0 wios=0 dbytes=0 dios=0\n");
    fs.write(p, "memory.stat", "anon 4096\nfile 4096\nshmem 0\npgscan " + std::to_string(plugin == "kill_by_pg_scan" ? n.cum : 0) + "\n");
  }
  int hardPct = 8; // cgroups none of whose processes can be signalled (EPERM): the attempt fails slowly, round after round
  std::vector<int> genPids(const std::string& p) {
    std::vector<int> v;
    int cnt = r.pick(std::vector<int>{0, 0, 1, 1, 2, 3, 3, 25, 45});
    bool hard = r.chance(hardPct);
    for (int i = 0; i < cnt; i++) {
      int pid = nextPid++;
      v.push_back(pid);
      int x = r.upto(100);
      pidKind[pid] = hard ? EPERM_ : x < 70 ? DIES : x < 80 ? SURVIVES : x < 90 ? ESRCH_ : EPERM_;
      pidHome[pid] = p;
    }
    if (r.chance(12)) v.insert(v.begin() + r.upto((int)v.size() + 1), 0);
    return v;
  }
  void rollPref(NodeS& n) {
    n.prefX.clear();
    int x = r.upto(100);
    if (x < 12) n.prefX.insert("trusted.oomd_prefer");
    else if (x < 20) n.prefX.insert("user.oomd_prefer");
    else if (x < 32) n.prefX.insert("trusted.oomd_avoid");
    else if (x < 40) n.prefX.insert("user.oomd_avoid");
    else if (x < 46) { n.prefX.insert("trusted.oomd_avoid"); n.prefX.insert("user.oomd_prefer"); }
    else if (x < 50) { n.prefX.insert("user.oomd_avoid"); n.prefX.insert("trusted.oomd_prefer"); }
  }
  NodeS genNode(const std::string& p, bool rate) {
    NodeS n;
    int x = r.upto(100);
    if (x < 12) n.prefX.insert("trusted.oomd_prefer");
    else if (x < 20) n.prefX.insert("user.oomd_prefer");
    else if (x < 32) n.prefX.insert("trusted.oomd_avoid");
    else if (x < 40) n.prefX.insert("user.oomd_avoid");
    else if (x < 46) { n.prefX.insert("trusted.oomd_avoid"); n.prefX.insert("user.oomd_prefer"); }
    else if (x < 50) { n.prefX.insert("user.oomd_avoid"); n.prefX.insert("trusted.oomd_prefer"); }
    n.oomg = r.chance(20) ? 1 : (r.chance(50) ? 0 : -1);
    n.pop = !r.chance(20);
    n.key = r.upto(5);
    n.pids = genPids(p);
    (void)rate;
    return n;
  }
};

static const std::vector<std::string> kNames = {"a", "ab", "a.b", "b", "a-1", "x", "y"};

int main(int argc, char** argv) {
  if (argc < 5) { fprintf(stderr, "usage\n"); return 2; }
  evOpen(argv[1]);
  uint64_t seed = strtoull(argv[2], nullptr, 10);
  int nScn = atoi(argv[3]);
  std::string profile = argv[4];
  int firstScn = argc > 5 ? atoi(argv[5]) : 0;
  installAbortHandlers();
  std::string tmpd = getenv("VERIF_TMP") ? getenv("VERIF_TMP") : "/tmp";
  std::string kmsgPath = tmpd + "/vkmsg." + std::to_string(getpid());
  int kfd = (int)::open(kmsgPath.c_str(), O_WRONLY | O_CREAT | O_APPEND, 0644);
  std::ostringstream sink;
  Oomd::Log::get(kfd, sink, true);
  { static std::string sp = tmpd + "/vstats." + std::to_string(getpid()) + ".sock"; Oomd::Stats::init(sp); }
  vclockEnable(true);
  auto& I = ip();
  I.active = true;
  I.kmsgPath = kmsgPath;
  I.logXattr = false;

  for (int scn = firstScn; scn < firstScn + nScn; scn++) {
    Driver D(seed * 7919ULL + scn);
    g_lastAsync = false;
    Rng& r = D.r;
    D.hardPct = profile == "c07" ? 25 : profile == "c01" || profile == "c03" || profile == "c17" ? 15 : 8;
    I.base = D.fs.base();
    resetScenario();
    Oomd::setStat(Oomd::CoreStats::kKillsKey, 0);
    // ----- plugin and arguments
    D.plugin = r.pick(std::vector<std::string>{"kill_by_memory_size_or_growth", "kill_by_memory_size_or_growth",
        "kill_by_memory_size_or_growth", "kill_by_memory_size_or_growth", "kill_by_swap_usage", "kill_by_pressure",
        "kill_by_io_cost", "kill_by_pg_scan"});
    if (profile == "c03" || profile == "c07") D.plugin = "kill_by_memory_size_or_growth";
    bool rate = D.plugin == "kill_by_io_cost" || D.plugin == "kill_by_pg_scan";
    bool recursive = r.chance(60), dry = r.chance(profile == "c04" ? 55 : 15), always = r.chance(profile == "c05" ? 50 : 15),
         kernel = r.chance(profile == "c01" || profile == "c04" || profile == "c17" ? 35 : profile == "c03" ? 25 : 15), reap = r.chance(60);
    int timeout = r.pick(std::vector<int>{0, 1, 2, 5});
    // ----- world
    int nTop = 1 + r.upto(4);
    std::vector<std::string> names = kNames;
    std::shuffle(names.begin(), names.end(), r.g);
    for (int i = 0; i < nTop; i++) {
      std::string p = names[i];
      D.w.nodes[p] = D.genNode(p, rate);
      if (r.chance(60)) {
        int nc = 1 + r.upto(3);
        for (int c = 0; c < nc; c++) {
          std::string q = p + "/" + kNames[r.upto((int)kNames.size())];
          if (D.w.nodes.count(q)) continue;
          D.w.nodes[q] = D.genNode(q, rate);
          if (r.chance(30)) {
            std::string q2 = q + "/" + kNames[r.upto((int)kNames.size())];
            D.w.nodes[q2] = D.genNode(q2, rate);
          }
        }
      }
    }
    for (auto& [p, n] : D.w.nodes) D.render(p, true);
    // patterns
    std::vector<std::string> patPool = {"*", "a*", "a?", "a", "b", "ab", "a.b", "*/x", "a/*", "*/*", "a*/y", "?", "a-1"};
    std::set<std::string> pats;
    int np = 1 + r.upto(2);
    for (int i = 0; i < np; i++) pats.insert(r.pick(patPool));
    // hooks
    struct HookS { std::string id; std::vector<std::string> pats; };
    std::vector<HookS> baseHooks, dropHooks;
    std::vector<std::string> hookPats = {"*", "a", "a/*", "*/x", "b", "ab", "*/*/*", "a*"};
    int nb = profile == "c07" ? 1 + r.upto(3) : (r.chance(50) ? r.upto(3) : 0);
    for (int i = 0; i < nb; i++) baseHooks.push_back({"hb" + std::to_string(i), {r.pick(hookPats)}});
    // drop-ins carry one or two hooks each; some are removed or updated (= removed and re-added as newest) later
    int nd = r.chance(profile == "c07" ? 60 : 30) ? 1 + r.upto(profile == "c07" ? 4 : 2) : 0;
    std::vector<std::vector<HookS>> dropIns;
    for (int i = 0; i < nd; i++) {
      std::vector<HookS> hs;
      int nh = 1 + r.upto(2);
      for (int j = 0; j < nh; j++) hs.push_back({"hd" + std::to_string(i) + "_" + std::to_string(j), {r.pick(hookPats), r.pick(hookPats)}});
      dropIns.push_back(hs);
    }
    // pre-existing xattr values
    std::vector<std::string> xj;
    for (auto& [p, n] : D.w.nodes) {
      if (!r.chance(profile == "c17" ? 75 : 35)) continue;
      int ot = r.pick(std::vector<int>{0, 7}), ou = r.pick(std::vector<int>{0, 3}), kt = r.pick(std::vector<int>{0, 5}), ku = r.pick(std::vector<int>{0, 2});
      // a pre-existing value that is not an integer at all (the user.* ones are writable by the cgroup's owner)
      // reads as 0: the text goes to the file system, the integer reading to the specification
      static const std::vector<std::string> junk = {"abc", "", "x1", "99999999999999999999", "-"};
      auto put = [&](const char* name, int& v) {
        int x = r.upto(100);
        if (x < (profile == "c17" ? 12 : 4)) { D.fs.setXattr(p, name, r.pick(junk)); v = 0; }
        // written by something else than oomd: the number followed by a newline, a blank or a NUL still reads as the number
        else if (x < (profile == "c17" ? 24 : 8)) D.fs.setXattr(p, name, std::to_string(v) + r.pick(std::vector<std::string>{"\n", " ", std::string(1, '\0')}));
        else D.fs.setXattr(p, name, std::to_string(v));
      };
      put("trusted.oomd_ooms", ot); put("user.oomd_ooms", ou); put("trusted.oomd_kill", kt); put("user.oomd_kill", ku);
      xj.push_back(J().raw("path", pathChars(p)).num("oomsT", ot).num("oomsU", ou).num("killT", kt).num("killU", ku).done());
    }

    // ----- engine
    IR::Root root;
    IR::Ruleset rs;
    // sometimes the ruleset and detector group carry very long names (no spaces): the kill record then exceeds 1 KiB and
    // must still name cgroup, ruleset, detector group and plugin (and "(dry)") in one line; events report them as r0 / g0
    bool longNames = r.chance(12);
    const std::string rsName = longNames ? "r0" + std::string(470, 'R') : "r0";
    const std::string dgName = longNames ? "g0" + std::string(470, 'G') : "g0";
    g_rsName = rsName; g_dgName = dgName;
    rs.name = rsName;
    IR::DetectorGroup dg; dg.name = dgName;
    IR::Detector det; det.name = kDetName; det.args["id"] = "d"; dg.detectors.push_back(det);
    rs.dgs.push_back(dg);
    IR::Action act; act.name = "verif_wrap"; act.args["inner"] = D.plugin;
    { std::string c; for (auto& p : pats) { if (!c.empty()) c += ","; c += p; } act.args["cgroup"] = c; }
    act.args["recursive"] = recursive ? "true" : "false";
    if (dry) act.args["dry"] = "true";
    if (always) act.args["always_continue"] = "1";
    if (kernel) act.args["kernelkill"] = "true";
    act.args["reap_memory"] = reap ? "true" : "false";
    if (D.plugin == "kill_by_memory_size_or_growth") act.args["size_threshold"] = "0";
    if (D.plugin == "kill_by_swap_usage") act.args["threshold"] = "0";
    if (D.plugin == "kill_by_pressure") act.args["resource"] = "memory";
    rs.acts.push_back(act);
    IR::Action nxt; nxt.name = kActName; nxt.args["id"] = "next"; rs.acts.push_back(nxt);
    // post-action delays (C05 around a real kill plugin): mostly none, so that most executions keep killing every tick
    int rsDelay = profile == "c05" ? r.pick(std::vector<int>{0, 2, 4, 6}) : r.pick(std::vector<int>{0, 0, 0, 0, 2, 5});
    int plDelay = profile == "c05" ? r.pick(std::vector<int>{-1, -1, 0, 3, 7}) : r.pick(std::vector<int>{-1, -1, -1, -1, 0, 3});
    if (plDelay >= 0) act.args["post_action_delay"] = std::to_string(plDelay), rs.acts[0].args["post_action_delay"] = std::to_string(plDelay);
    rs.post_action_delay = std::to_string(rsDelay);
    rs.prekill_hook_timeout = std::to_string(timeout);
    root.rulesets.push_back(rs);
    auto hookIR = [](const HookS& h) {
      IR::PrekillHook o; o.name = kHookName; o.args["id"] = h.id;
      std::string c; for (auto& p : h.pats) { if (!c.empty()) c += ","; c += p; }
      o.args["cgroup"] = c; return o; };
    for (auto& h : baseHooks) root.prekill_hooks.push_back(hookIR(h));
    int64_t t = 1000000 + r.upto(1000);
    vclockSet(t);
    Oomd::PluginConstructionContext pcc(D.fs.root());
    auto engine = Oomd::Config2::compile(root, pcc);
    if (!engine) { fprintf(stderr, "compile failed\n"); return 3; }
    std::vector<HookS> prio;
    std::vector<int> liveOrder; // drop-ins in the order they were (last) added
    auto addDropIn = [&](int i) {
      IR::Root dr; for (auto& h : dropIns[i]) dr.prekill_hooks.push_back(hookIR(h));
      auto unit = Oomd::Config2::compileDropIn(root, dr, pcc);
      if (!unit) { fprintf(stderr, "dropin compile failed\n"); _exit(3); }
      engine->addDropInConfig("tag" + std::to_string(i), std::move(*unit));
      liveOrder.push_back(i);
    };
    for (size_t i = 0; i < dropIns.size(); i++) addDropIn((int)i);
    for (int k = 0, nrm = dropIns.empty() ? 0 : r.upto(3); k < nrm && !liveOrder.empty(); k++) {
      int i = r.pick(liveOrder);
      engine->removeDropInConfig("tag" + std::to_string(i));
      liveOrder.erase(std::find(liveOrder.begin(), liveOrder.end(), i));
      if (r.chance(50)) addDropIn(i);
    }
    // priority: newest drop-in first (its hooks in config order), then base hooks in config order
    for (auto it = liveOrder.rbegin(); it != liveOrder.rend(); ++it) for (auto& h : dropIns[*it]) prio.push_back(h);
    for (auto& h : baseHooks) prio.push_back(h);
    std::vector<std::string> hj;
    for (auto& h : prio) {
      std::vector<std::string> ps; for (auto& p : h.pats) ps.push_back(pathChars(p));
      hj.push_back(J().str("id", h.id).raw("pats", J::arr(ps)).done());
    }
    std::vector<std::string> pj; for (auto& p : pats) pj.push_back(pathChars(p));
    evEmit(J().str("e", "KReset").num("scn", scn).num("seed", (long long)seed).str("profile", profile).num("t", t)
               .raw("cfg", J().str("plugin", D.plugin).raw("pats", J::arr(pj)).boolean("recursive", recursive)
                               .boolean("dry", dry).boolean("always", always).boolean("kernel", kernel)
                               .boolean("reap", reap).raw("hooks", J::arr(hj)).num("timeout", timeout).num("rsDelay", rsDelay).num("plDelay", plDelay).done())
               .raw("x", J::arr(xj)).raw("world", D.worldJson()));

    Oomd::ContextParams params;
    params.io_devs["8:0"] = Oomd::DeviceType::SSD;
    params.ssd_coeffs.readbw = 1;
    Oomd::OomdContext ctx(params);
    ctx.setPrekillHooksHandler([&](const Oomd::CgroupContext& cg) { return engine->firePrekillHook(cg, ctx); });

    // ----- interposers
    bool inOpenCb = false;
    I.onOpened = [&](const std::string& path, int flags) {
      if (inOpenCb || (flags & O_ACCMODE) != O_RDONLY) return;
      auto pos = path.rfind('/');
      if (path.substr(pos + 1) != "cgroup.procs") return;
      std::string dir = path.substr(0, pos);
      if (dir.compare(0, D.fs.root().size(), D.fs.root()) != 0) return;
      std::string rel = dir.size() > D.fs.root().size() ? dir.substr(D.fs.root().size() + 1) : "";
      inOpenCb = true;
      std::vector<long long> pids;
      { int fd = (int)syscall(SYS_openat, AT_FDCWD, path.c_str(), O_RDONLY, 0); char buf[8192]; std::string s; ssize_t n;
        while (fd >= 0 && (n = syscall(SYS_read, fd, buf, sizeof buf)) > 0) s.append(buf, n);
        if (fd >= 0) syscall(SYS_close, fd);
        std::stringstream ss(s); std::string ln; while (std::getline(ss, ln)) if (!ln.empty()) pids.push_back(atoll(ln.c_str())); }
      inOpenCb = false;
      evEmit(J().str("e", "ProcsOpen").raw("p", pathChars(rel)).raw("pids", J::numArr(pids)));
    };
    // a stalled system: every kill(2) takes this long (virtual time), so a failing attempt can outlast the hook window
    int slowKillMs = r.chance(profile == "c07" ? 35 : 8) ? r.pick(std::vector<int>{300, 700, 1500}) : 0;
    I.onKill = [&](int pid, int sig) {
      KillOutcome o{0, 0};
      if (slowKillMs) vclockAdvance(slowKillMs);
      auto it = D.pidKind.find(pid);
      PidKind k = it == D.pidKind.end() ? ESRCH_ : it->second;
      if (k == ESRCH_) o = {-1, ESRCH};
      if (k == EPERM_) o = {-1, EPERM};
      evEmit(J().str("e", "Kill").num("pid", pid).num("sig", sig).boolean("ok", o.rc == 0).num("t", vclockNowMs()));
      if ((k == DIES || k == ESRCH_) && it != D.pidKind.end()) {
        auto home = D.pidHome[pid];
        if (D.w.nodes.count(home)) {
          auto& v = D.w.nodes[home].pids;
          v.erase(std::remove(v.begin(), v.end(), pid), v.end());
          if (D.fs.exists(home)) D.writeProcs(home);
        }
        if (k == ESRCH_) D.pidKind.erase(pid);
      }
      return o;
    };
    // ----- a cgroup empties in the MIDDLE of a run (its last process exits): right before one of the plugin's opens.
    // "kth": before the k-th open under the root, a random populated cgroup; "freeze" / "procs" / "events": the cgroup
    // whose cgroup.freeze / cgroup.procs / cgroup.events is about to be opened (the windows the kernelkill re-read and
    // the signalling rounds exist for).  The whole subtree empties; cached statistics of the tick stay as they are.
    int emptyPct = profile == "c17" || profile == "c03" || profile == "c01" ? r.pick(std::vector<int>{0, 25, 60}) : r.pick(std::vector<int>{0, 0, 25});
    std::string emptyMode; int emptyCountdown = 0;
    auto emptyCg = [&](const std::string& p) {
      for (auto& [q, m] : D.w.nodes) {
        if (!(q == p || q.compare(0, p.size() + 1, p + "/") == 0)) continue;
        bool was = m.pop;
        m.pop = false; m.pids.clear();
        if (!D.fs.exists(q)) continue;
        D.fs.write(q, "cgroup.events", "populated 0\nfrozen 0\n");
        D.fs.write(q, "pids.current", "0\n");
        D.writeProcs(q);
        if (was) evEmit(J().str("e", "KEmpty").raw("p", pathChars(q)).str("mode", emptyMode));
      }
    };
    // ----- a child cgroup vanishes inside the tick, right when oomd is about to open it through its parent's directory
    // (its name may already be in the parent's listing): in prerun or in the walk, before anything was attempted.
    // Only with patterns that reach depth >= 2 by descending (no '/' in any pattern), so that it is no candidate yet.
    bool flatPats = true; for (auto& p : pats) if (p.find('/') != std::string::npos) flatPats = false;
    int gonePct = flatPats && recursive ? r.pick(std::vector<int>{0, 30, 60}) : 0;
    bool goneArmed = false, attemptSeen = false; int goneCountdown = 0;
    ctx.setPrekillHooksHandler([&](const Oomd::CgroupContext& cg) { attemptSeen = true; return engine->firePrekillHook(cg, ctx); });
    I.onOpen = [&](const std::string& path, int flags) -> int {
      if (goneArmed && !attemptSeen && I.openIsRelative && (flags & O_DIRECTORY)) {
        const std::string& root0 = D.fs.root();
        std::string rel0 = path.size() > root0.size() + 1 ? path.substr(root0.size() + 1) : "";
        if (D.w.nodes.count(rel0) && rel0.find('/') != std::string::npos && goneCountdown-- <= 0) {
          goneArmed = false;
          std::vector<std::string> gone;
          for (auto& [q, m] : D.w.nodes) if (q == rel0 || q.compare(0, rel0.size() + 1, rel0 + "/") == 0) gone.push_back(q);
          for (auto& q : gone) D.w.nodes.erase(q);
          D.fs.rmcg(rel0);
          evEmit(J().str("e", "KGone").raw("p", pathChars(rel0)));
          return 0;
        }
      }
      if (!g_inRun || emptyMode.empty()) return 0;
      const std::string& root = D.fs.root();
      if (path.compare(0, root.size() + 1, root + "/") != 0) return 0;
      auto pos = path.rfind('/');
      std::string file = path.substr(pos + 1), rel = pos > root.size() ? path.substr(root.size() + 1, pos - root.size() - 1) : "";
      std::string target;
      if (emptyMode == "kth") {
        // not between the kernelkill's fresh look at cgroup.events and its write of cgroup.kill: what the kernel does with
        // a cgroup that empties at that very moment is not oomd's decision any more
        if (file == "cgroup.kill" || emptyCountdown-- > 0) return 0;
        std::vector<std::string> cand;
        for (auto& [q, m] : D.w.nodes) if (m.pop) cand.push_back(q);
        if (cand.empty()) { emptyMode.clear(); return 0; }
        target = r.pick(cand);
      } else {
        if (file != "cgroup." + emptyMode || !D.w.nodes.count(rel) || !D.w.nodes[rel].pop) return 0;
        if (emptyMode == "freeze" && (flags & O_ACCMODE) == O_RDONLY) return 0;
        if (emptyCountdown-- > 0) return 0;
        target = rel;
      }
      std::string mode = emptyMode;
      emptyCg(target);
      emptyMode.clear();
      return 0;
    };
    I.onPidfdOpen = [&](int pid) { evEmit(J().str("e", "Reap").num("pid", pid)); return D.pidKind.count(pid) ? 999 : -ESRCH; };
    I.onMrelease = [&](int) { return 0; };
    I.onWrite = [&](const std::string& path, const std::string& data) {
      if (path == kmsgPath) {
        // "oomd kill: 0.00 0.00 0.00 <cgroup> <usage> ruleset:[r0] detectorgroup:[g0] killer:(dry)<plugin> v2"
        std::stringstream ss(data); std::vector<std::string> tok; std::string w; while (ss >> w) tok.push_back(w);
        std::string cg = tok.size() > 5 ? tok[5] : "", killer, rsn, dgn;
        for (auto& x : tok) { if (x.rfind("killer:", 0) == 0) killer = x.substr(7); if (x.rfind("ruleset:[", 0) == 0) rsn = x.substr(9, x.size() - 10); if (x.rfind("detectorgroup:[", 0) == 0) dgn = x.substr(15, x.size() - 16); }
        bool isDry = killer.rfind("(dry)", 0) == 0;
        if (isDry) killer = killer.substr(5);
        rsn = rsn == g_rsName ? "r0" : "?" + rsn.substr(0, 20); dgn = dgn == g_dgName ? "g0" : "?" + dgn.substr(0, 20);
        evEmit(J().str("e", "Kmsg").raw("p", pathChars(cg)).str("plugin", killer).boolean("dry", isDry).str("rs", rsn).str("dg", dgn)
                   .boolean("prefixOk", data.rfind("oomd kill: ", 0) == 0));
        return;
      }
      auto pos = path.rfind('/');
      std::string file = path.substr(pos + 1), dir = path.substr(0, pos);
      if (dir.compare(0, D.fs.root().size(), D.fs.root()) != 0) return;
      std::string rel = dir.size() > D.fs.root().size() ? dir.substr(D.fs.root().size() + 1) : "";
      evEmit(J().str("e", "CtlWrite").raw("p", pathChars(rel)).str("file", file).str("val", data));
    };
    I.logXattr = false;
    // xattr writes are logged from here (path -> relative, value classified)
    struct XLog { static void emit(Driver& D, const std::string& path, const std::string& name, const std::string& val) {
      std::string rel = path.size() > D.fs.root().size() ? path.substr(D.fs.root().size() + 1) : "";
      std::string ns = name.rfind("trusted.", 0) == 0 ? "trusted" : "user";
      std::string base = name.substr(name.find('.') + 1);
      std::string kind = base == "oomd_kill_uuid" ? "uuid" : base == "oomd_ooms" ? "ooms" : base == "oomd_kill" ? "kill" : "other";
      long long v = kind == "uuid" ? internUuid(val) : atoll(val.c_str());
      evEmit(J().str("e", "X").str("kind", kind).str("ns", ns).raw("p", pathChars(rel)).num("v", v)); } };
    // poll the xattr store for changes after each tick is too late for ordering; use a hook in setxattr
    g_onSetXattr = [&](const std::string& p, const std::string& n, const std::string& v) { attemptSeen = true; XLog::emit(D, p, n, v); };

    std::map<std::string, int> hookPolls; // "hook|cgroup" -> polls
    setHookDecider([&](const std::string&, const std::string&) { return r.pick(std::vector<int>{0, 0, 1, 2, 3, -1}); });
    int detStopPct = r.pick(std::vector<int>{0, 0, 20});
    int nextStopPct = profile == "c05" ? 60 : r.pick(std::vector<int>{0, 0, 30});
    setDecider([&](const CallInfo& c) { Decision d; if (!c.isAction && r.chance(detStopPct)) d.ret = 1; if (c.isAction && r.chance(nextStopPct)) d.ret = 1; return d; });

    int nTicks = 2 + r.upto(profile == "c07" || profile == "c05" ? 9 : 6);
    for (int k = 0; k < nTicks; k++) {
      // ----- environment: edits between ticks
      if (k > 0) {
        int dt = r.pick(std::vector<int>{1000, 1000, 1000, 2000, 3000, 500});
        vclockAdvance(dt);
        for (auto& [p, n] : D.w.nodes) n.sampled = true;
        std::vector<std::string> paths;
        for (auto& [p, n] : D.w.nodes) paths.push_back(p);
        // kill preference marks of LIVING cgroups change between ticks (set, cleared, prefer <-> avoid)
        if (r.chance(profile == "c03" ? 60 : 25) && !paths.empty()) { std::string p = r.pick(paths); D.rollPref(D.w.nodes[p]); }
        if (r.chance(profile == "c03" ? 40 : 10) && !paths.empty()) { std::string p = r.pick(paths); D.rollPref(D.w.nodes[p]); }
        int edits = r.upto(4);
        for (int e2 = 0; e2 < edits && !paths.empty(); e2++) {
          std::string p = r.pick(paths);
          if (!D.w.nodes.count(p)) continue;
          int c = r.upto(rate ? 3 : 6);
          NodeS& n = D.w.nodes[p];
          if (c == 0) n.key = r.upto(5);
          else if (c == 1) n.pop = !n.pop;
          else if (c == 2) n.pids = D.genPids(p);
          else if (c == 3) { // remove (with its subtree)
            std::vector<std::string> gone;
            for (auto& [q, m] : D.w.nodes) if (q == p || q.compare(0, p.size() + 1, p + "/") == 0) gone.push_back(q);
            for (auto& q : gone) D.w.nodes.erase(q);
            D.fs.rmcg(p);
          } else if (c == 4) { // re-create under the same name: new identity, fresh content
            std::vector<std::string> gone;
            for (auto& [q, m] : D.w.nodes) if (q == p || q.compare(0, p.size() + 1, p + "/") == 0) gone.push_back(q);
            NodeS keep = n;
            for (auto& q : gone) D.w.nodes.erase(q);
            D.fs.rmcg(p);
            keep.pids = D.genPids(p);
            D.w.nodes[p] = keep;
            D.render(p, true);
          } else { // new child
            std::string q = p + "/" + kNames[r.upto((int)kNames.size())];
            if (!D.w.nodes.count(q) && std::count(q.begin(), q.end(), '/') < 3) { D.w.nodes[q] = D.genNode(q, rate); D.render(q, true); }
          }
        }
        for (auto& [p, n] : D.w.nodes) D.render(p, false);
      }
      evEmit(J().str("e", "KEnv").num("t", vclockNowMs()).raw("world", D.worldJson()));
      ctx.refresh();
      ctx.bumpCurrentTick();
      // (not in a tick that resumes a suspended kill cycle: its candidates were chosen ticks ago)
      goneArmed = r.chance(gonePct) && !g_lastAsync; goneCountdown = r.upto(3); attemptSeen = false;
      emptyMode.clear();
      if (r.chance(emptyPct)) {
        emptyMode = r.pick(std::vector<std::string>{"kth", "kth", "freeze", "procs", "events"});
        emptyCountdown = emptyMode == "kth" ? r.upto(40) : emptyMode == "procs" ? r.upto(3) : 0;
      }
      engine->prerun(ctx);
      engine->runOnce(ctx);
      emptyMode.clear(); goneArmed = false;
      auto st = Oomd::getStats();
      evEmit(J().str("e", "KStat").num("kills", st[Oomd::CoreStats::kKillsKey]).num("t", vclockNowMs()));
    }
    setDecider([](const CallInfo&) { return Decision{}; });
    g_onSetXattr = nullptr;
    I.onOpened = nullptr; I.onOpen = nullptr; I.onKill = nullptr; I.onWrite = nullptr; I.onPidfdOpen = nullptr; I.onMrelease = nullptr;
    evEmit(J().str("e", "KEnd"));
  }
  // ----- systemd_restart, dry and wet (C04): D-Bus calls observed through interposed sd_bus_*
  for (int k = 0; k < (profile == "c04" || profile == "mix" ? 4 : 0); k++) {
    bool dry = k % 2 == 0;
    std::string svc = k < 2 ? "foo.service" : "a-b@1.service";
    Oomd::setStat("oomd.restarts", 0);
    std::unique_ptr<Oomd::Engine::BasePlugin> pl(Oomd::getPluginRegistry().create("systemd_restart"));
    if (!pl) break;
    pl->setName("systemd_restart");
    Oomd::Engine::PluginArgs a{{"service", svc}, {"post_action_delay", "0"}};
    if (dry) a["dry"] = "true";
    evEmit(J().str("e", "SReset").boolean("dry", dry).str("service", svc).num("t", vclockNowMs()));
    I.onWrite = [&](const std::string& path, const std::string& data) {
      if (path != kmsgPath) return;
      auto pos = data.find("service=");
      std::string rest = pos == std::string::npos ? "" : data.substr(pos + 8);
      bool d = rest.find("(dry)") != std::string::npos;
      std::string name = rest.substr(0, rest.find_first_of(" \n"));
      evEmit(J().str("e", "SKmsg").str("service", name).boolean("dry", d).boolean("prefixOk", data.rfind("oomd kill: ", 0) == 0));
    };
    int rc = pl->initPlugin(a, Oomd::PluginConstructionContext("/"));
    Oomd::OomdContext ctx;
    auto ret = rc == 0 ? pl->run(ctx) : Oomd::Engine::PluginRet::CONTINUE;
    static const char* names[] = {"CONTINUE", "STOP", "ASYNC"};
    auto st = Oomd::getStats();
    evEmit(J().str("e", "SRet").str("ret", names[(int)ret]).num("restarts", st["oomd.restarts"]).num("init", rc));
    I.onWrite = nullptr;
  }
  evFlush();
  fflush(stdout);
  _exit(0);
}

// ---------------------------------------------------------------- sd-bus (libsystemd) stand-ins
#include <stdarg.h>
extern "C" {
struct sd_bus; struct sd_bus_message; struct sd_bus_error { const char* name; const char* message; int need_free; };
int sd_bus_open_system(sd_bus** b) { *b = (sd_bus*)0x1; return 0; }
int sd_bus_call_method(sd_bus*, const char*, const char*, const char*, const char* member, sd_bus_error*,
                       sd_bus_message** reply, const char* types, ...) {
  va_list ap; va_start(ap, types);
  const char* unit = types && types[0] == 's' ? va_arg(ap, const char*) : "";
  const char* mode = types && types[0] == 's' && types[1] == 's' ? va_arg(ap, const char*) : "";
  va_end(ap);
  verif::evEmit(verif::J().str("e", "Dbus").str("method", member ? member : "").str("unit", unit ? unit : "").str("mode", mode ? mode : ""));
  if (reply) *reply = (sd_bus_message*)0x2;
  return 0;
}
int sd_bus_message_read(sd_bus_message*, const char*, ...) { return 1; }
void sd_bus_error_free(sd_bus_error*) {}
sd_bus_message* sd_bus_message_unref(sd_bus_message*) { return nullptr; }
void sd_bus_close(sd_bus*) {}
sd_bus* sd_bus_unref(sd_bus*) { return nullptr; }
}
