// Conformance driver for C08: the seven REAL core detectors are run tick by tick on a simulated
// cgroupfs under a virtual clock; parameters, the sample of every tick and the returned PluginRet
// are recorded for Detectors_Trace.tla.
// usage: det_driver <trace.ndjson> <seed> <nScenarios> [firstScenario]
#include <unistd.h>
#include <cstdio>
#include <cstdlib>
#include <map>
#include <random>
#include <set>
#include <sstream>

#include "../common/evlog.h"
#include "../common/interpose.h"
#include "../common/simfs.h"
#include "../common/vclock.h"
#include "oomd/Log.h"
#include "oomd/OomdContext.h"
#include "oomd/PluginRegistry.h"

using namespace verif;
struct Rng {
  std::mt19937_64 g;
  explicit Rng(uint64_t s) : g(s) {}
  int upto(int n) { return (int)(g() % (uint64_t)n); }
  bool chance(int pct) { return upto(100) < pct; }
  template <class T> const T& pick(const std::vector<T>& v) { return v[upto((int)v.size())]; }
};
struct Cg { int p10 = 0, p60 = 0, p300 = 0; long long usage = 0; int pgscan = 0; int dying = 0; };

static std::string hund(int v) { char b[32]; snprintf(b, sizeof b, "%d.%02d", v / 100, v % 100); return b; }

int main(int argc, char** argv) {
  if (argc < 4) return 2;
  evOpen(argv[1]);
  uint64_t seed = strtoull(argv[2], nullptr, 10);
  int nScn = atoi(argv[3]), firstScn = argc > 4 ? atoi(argv[4]) : 0;
  installAbortHandlers();
  std::ostringstream sink;
  Oomd::Log::get(-1, sink, true);
  vclockEnable(true);
  ip().active = true;
  const std::vector<std::string> kinds = {"pressure_above", "pressure_rising_beyond", "memory_above", "memory_reclaim",
                                          "swap_free", "exists", "nr_dying_descendants"};
  for (int scn = firstScn; scn < firstScn + nScn; scn++) {
    Rng r(seed * 15485863ULL + scn);
    SimFs fs;
    ip().base = fs.base();
    std::string kind = kinds[scn % kinds.size()];
    bool io = r.chance(40), anon = r.chance(40), negate = r.chance(40), lte = r.chance(50);
    int thr = r.pick(std::vector<int>{1, 40, 80});            // pressure %: integer; memory: abstract units (MiB)
    int dur = r.pick(std::vector<int>{0, 0, 1, 2, 3});
    int ratioPct = r.pick(std::vector<int>{0, 50, 85, 100});
    int count = r.upto(3), pct = r.pick(std::vector<int>{0, 15, 50, 100}), bps = r.pick(std::vector<int>{0, 0, 4096});
    // threshold spelling for memory_above: bytes with suffix, bare megabytes, percent of MemTotal
    const long long MemTotalMB = 10000; // so that pct of MemTotal is thr MiB for pct = thr / 100
    std::string thrSpelling = std::to_string(thr);
    int spelling = r.upto(4);
    if (kind == "memory_above") {
      if (spelling == 0) thrSpelling = std::to_string(thr) + "M";
      else if (spelling == 1) thrSpelling = std::to_string(thr);                       // bare number = megabytes
      else if (spelling == 2) { thr = r.pick(std::vector<int>{100, 4000, 8000}); thrSpelling = std::to_string(thr / 100) + "%"; }
      else thrSpelling = std::to_string(thr * 1024) + "K";
    }
    fs.writeAbs(fs.base() + "/meminfo", "MemTotal:       " + std::to_string(MemTotalMB * 1024) + " kB\nMemFree: 100 kB\n");
    Oomd::Engine::PluginArgs args;
    std::string pattern = r.chance(50) ? "w*" : "w1,w2,w3";
    if (kind != "swap_free") args["cgroup"] = pattern;
    if (kind == "pressure_above" || kind == "pressure_rising_beyond") {
      args["resource"] = io ? "io" : "memory"; args["threshold"] = std::to_string(thr); args["duration"] = std::to_string(dur);
      if (kind == "pressure_rising_beyond" && ratioPct != 85) args["fast_fall_ratio"] = hund(ratioPct);
    } else if (kind == "memory_above") {
      args[anon ? "threshold_anon" : "threshold"] = thrSpelling; args["duration"] = std::to_string(dur);
      // "when both are specified, only threshold_anon is effective": a decoy total threshold that would decide otherwise
      if (anon && r.chance(50)) args["threshold"] = r.pick(std::vector<std::string>{"1", "999999M", "0%", "100%"});
      args["meminfo_location"] = fs.base() + "/meminfo";
    } else if (kind == "memory_reclaim") args["duration"] = std::to_string(dur);
    else if (kind == "swap_free") { args["threshold_pct"] = std::to_string(pct); if (bps) args["swapout_bps_threshold"] = std::to_string(bps); }
    else if (kind == "exists") { if (negate) args["negate"] = "true"; }
    else if (kind == "nr_dying_descendants") { args["count"] = std::to_string(count); args["lte"] = lte ? "true" : "false"; }
    std::unique_ptr<Oomd::Engine::BasePlugin> pl(Oomd::getPluginRegistry().create(kind));
    pl->setName(kind);
    if (pl->initPlugin(args, Oomd::PluginConstructionContext(fs.root())) != 0) { fprintf(stderr, "init failed for %s\n", kind.c_str()); return 3; }
    int64_t t = 1000000 + r.upto(1000);
    vclockSet(t);
    evEmit(J().str("e", "SReset").num("scn", scn).num("seed", (long long)seed).num("t", t)
               .raw("cfg", J().str("kind", kind).num("thr", thr).num("dur", dur).num("ratioPct", kind == "pressure_rising_beyond" ? ratioPct : 85)
                               .boolean("anon", anon).boolean("negate", negate).boolean("lte", lte).num("count", count)
                               .num("pct", pct).num("bps", bps).done()));
    Oomd::OomdContext ctx;
    std::map<std::string, Cg> world; // matched cgroups w1..w3 present or not; x1 never matched
    fs.mkcg("x1");
    long long swapTotal = r.pick(std::vector<long long>{0, 200, 1000}) * 1048576LL * r.pick(std::vector<long long>{1, 4096});
    int nTicks = 3 + r.upto(8);
    int lastP10 = 10000;
    std::map<std::string, int> pgcum;
    for (int k = 0; k < nTicks; k++) {
      if (k > 0) { int dt = r.pick(std::vector<int>{1, 500, 999, 1000, 1001, 1999, 2000, 2500, 3000}); vclockAdvance(dt); }
      // membership changes
      for (auto name : {"w1", "w2", "w3"}) {
        if (world.count(name)) { if (r.chance(12)) { world.erase(name); fs.rmcg(name); } }
        else if (r.chance(k == 0 ? 60 : 20)) world[name] = Cg{};
      }
      // values around the threshold
      auto around = [&](int center) { return center + r.pick(std::vector<int>{-3000, -1, 0, 1, 1, 2500}); };
      for (auto& [name, c] : world) {
        c.p10 = std::max(0, std::min(10000, around(thr * 100)));
        c.p60 = std::max(0, std::min(10000, around(thr * 100)));
        c.p300 = r.upto(10000);
        c.usage = std::max(0, thr + r.pick(std::vector<int>{-30, -1, 0, 1, 1, 25}));
        pgcum[name] += r.pick(std::vector<int>{0, 0, 0, 1, 7});
        c.pgscan = pgcum[name];
        c.dying = r.upto(4);
      }
      // keep pressure_rising_beyond away from the exact fast-fall boundary (float rounding band)
      if (kind == "pressure_rising_beyond")
        for (auto& [name, c] : world) if ((long long)c.p10 * 100 == (long long)lastP10 * ratioPct) c.p10 += 1;
      std::vector<std::string> cs;
      for (auto& [name, c] : world) {
        fs.mkcg(name);
        char b[400];
        snprintf(b, sizeof b, "some avg10=0.00 avg60=0.00 avg300=0.00 total=0\nfull avg10=%s avg60=%s avg300=%s total=1\n",
                 hund(c.p10).c_str(), hund(c.p60).c_str(), hund(c.p300).c_str());
        fs.write(name, io ? "io.pressure" : "memory.pressure", b);
        fs.write(name, io ? "memory.pressure" : "io.pressure", "some avg10=99.00 avg60=99.00 avg300=99.00 total=0\nfull avg10=99.00 avg60=99.00 avg300=99.00 total=1\n");
        fs.write(name, "memory.current", std::to_string(anon ? (200 - c.usage) * 1048576LL : c.usage * 1048576LL) + "\n");
        // memory_reclaim sums pgscan over the watched cgroups; one whose memory.stat cannot be read counts as 0, the others
        // still count (sometimes the file of ONE of several cgroups is missing for a tick)
        bool statGone = kind == "memory_reclaim" && world.size() > 1 && name == world.begin()->first && r.chance(25);
        long long shownPgscan = statGone ? 0 : c.pgscan;
        if (statGone) ::unlink((fs.root() + "/" + name + "/memory.stat").c_str());
        else fs.write(name, "memory.stat", "anon " + std::to_string(anon ? c.usage * 1048576LL : 5) + "\nfile 1\npgscan " + std::to_string(c.pgscan) + "\n");
        fs.write(name, "cgroup.stat", "nr_descendants 1\nnr_dying_descendants " + std::to_string(c.dying) + "\n");
        cs.push_back(J().num("p10", c.p10).num("p60", c.p60).num("p300", c.p300).num("usage", c.usage).num("pgscan", shownPgscan).num("dying", c.dying).done());
      }
      long long used = swapTotal ? (swapTotal / 100) * r.pick(std::vector<int>{0, 49, 50, 51, 84, 85, 86, 100}) : 0;
      int sbps = r.pick(std::vector<int>{0, 4095, 4096, 100000});
      Oomd::SystemContext sc; sc.swaptotal = (uint64_t)swapTotal; sc.swapused = (uint64_t)used; sc.swapout_bps = sbps;
      ctx.setSystemContext(sc);
      ctx.refresh();
      auto ret = pl->run(ctx);
      // remember the watched p10 the way the documentation describes "previous" (most pressured cgroup)
      { int best = -1, bw = 0; for (auto& [name, c] : world) { int w = 3 * c.p10 + 2 * c.p60 + c.p300; if (w > bw) { bw = w; best = c.p10; } } lastP10 = best < 0 ? 0 : best; }
      static const char* names[] = {"CONTINUE", "STOP", "ASYNC"};
      long long unit = swapTotal ? swapTotal / 100 : 1;
      evEmit(J().str("e", "DTick").num("t", vclockNowMs()).raw("cs", J::arr(cs))
                 .raw("sys", J().num("total", swapTotal / unit).num("used", used / unit).num("bps", sbps).done())
                 .str("ret", names[(int)ret]));
    }
    evEmit(J().str("e", "SEnd"));
  }
  evFlush();
  _exit(0);
}
