// Conformance driver for C20: the REAL asynchronous Log (get_for_unittest, not inline) with a
// controllable std::streambuf sink.  Producer threads log numbered lines of chosen sizes, the sink is
// blocked and released, threads silence themselves, the logger is destroyed.  Hook points inside the
// logger's lock (OOMD_VERIF) and the lines arriving at the sink are written to one event log whose
// order is a linearisation (hook events are emitted while the logger's lock is held).
// usage: log_driver <trace.ndjson> <seed> <nScenarios> [firstScenario]
#include <fcntl.h>
#include <unistd.h>
#include <atomic>
#include <condition_variable>
#include <cstdio>
#include <cstdlib>
#include <cstring>
#include <mutex>
#include <random>
#include <sstream>
#include <streambuf>
#include <thread>

#include "../common/evlog.h"
#include "oomd/Log.h"
#include "oomd/include/Verif.h"

using namespace verif;
struct Rng {
  std::mt19937_64 g;
  explicit Rng(uint64_t s) : g(s) {}
  int upto(int n) { return (int)(g() % (uint64_t)n); }
  bool chance(int pct) { return upto(100) < pct; }
  template <class T> const T& pick(const std::vector<T>& v) { return v[upto((int)v.size())]; }
};

static thread_local int tlsThr = -1, tlsI = -1;

static void hook(const char* tag, long a, long b) {
  if (!strcmp(tag, "log.accept")) evEmit(J().str("e", "Accept").num("thr", tlsThr).num("i", tlsI).num("size", a).num("cur", b));
  else if (!strcmp(tag, "log.drop")) evEmit(J().str("e", "Drop").num("thr", tlsThr).num("i", tlsI).num("size", a));
  else if (!strcmp(tag, "log.swap")) evEmit(J().str("e", "Swap").num("n", a).num("disc", b));
  else if (!strcmp(tag, "log.stop")) evEmit(J().str("e", "Stop"));
}

// sink: collects bytes, emits one event per complete line, can be blocked
class BlockSink : public std::streambuf {
 public:
  void block(bool b) { { std::lock_guard<std::mutex> g(m_); blocked_ = b; } cv_.notify_all(); }
  long long bytes() { std::lock_guard<std::mutex> g(m_); return bytes_; }
 protected:
  std::streamsize xsputn(const char* s, std::streamsize n) override { put(s, n); return n; }
  int overflow(int c) override { if (c != EOF) { char ch = (char)c; put(&ch, 1); } return c; }
 private:
  void put(const char* s, std::streamsize n) {
    std::unique_lock<std::mutex> g(m_);
    cv_.wait(g, [&] { return !blocked_; });
    bytes_ += n;
    cur_.append(s, n);
    size_t pos;
    while ((pos = cur_.find('\n')) != std::string::npos) {
      std::string line = cur_.substr(0, pos);
      cur_.erase(0, pos + 1);
      int t, i;
      auto mk = line.find("MSG:");
      if (mk != std::string::npos && sscanf(line.c_str() + mk, "MSG:%d:%d:", &t, &i) == 2) evEmit(J().str("e", "Sink").num("thr", t).num("i", i));
      else if (line.find("messages dropped") != std::string::npos) evEmit(J().str("e", "DropsReported").num("n", atoll(line.c_str())));
    }
  }
  std::mutex m_;
  std::condition_variable cv_;
  bool blocked_{false};
  long long bytes_{0};
  std::string cur_;
};

int main(int argc, char** argv) {
  if (argc < 4) return 2;
  evOpen(argv[1]);
  uint64_t seed = strtoull(argv[2], nullptr, 10);
  int nScn = atoi(argv[3]), firstScn = argc > 4 ? atoi(argv[4]) : 0;
  installAbortHandlers();
  Oomd::Verif::point.store(hook);
  std::string tmpd = getenv("VERIF_TMP") ? getenv("VERIF_TMP") : "/tmp";
  for (int scn = firstScn; scn < firstScn + nScn; scn++) {
    Rng r(seed * 86028121ULL + scn);
    std::string kmsgPath = tmpd + "/vkmsg." + std::to_string(getpid()) + "." + std::to_string(scn);
    int kfd = ::open(kmsgPath.c_str(), O_WRONLY | O_CREAT | O_TRUNC, 0644);
    BlockSink sb;
    std::ostream os(&sb);
    evEmit(J().str("e", "SReset").num("scn", scn).num("seed", (long long)seed));
    auto log = Oomd::Log::get_for_unittest(kfd, os, /* inline */ false);
    int nThreads = 1 + r.upto(4);
    int perThread = r.pick(std::vector<int>{3, 10, 40});
    bool stall = r.chance(50);            // sink blocked while far more than the cap is offered
    int bigPct = r.pick(std::vector<int>{0, 10, 40});
    std::vector<uint64_t> seeds;
    for (int t = 0; t < nThreads; t++) seeds.push_back(r.g());
    std::atomic<int> silencedSeenInSink{0};
    if (stall) sb.block(true);
    std::vector<std::thread> ths;
    for (int t = 0; t < nThreads; t++) {
      ths.emplace_back([&, t] {
        Rng tr(seeds[t]);
        tlsThr = t + 1;
        bool silent = false;
        for (int i = 1; i <= perThread; i++) {
          if (tr.chance(15)) {
            silent = !silent;
            Oomd::LogStream(*log) << (silent ? Oomd::LogStream::Control::DISABLE : Oomd::LogStream::Control::ENABLE);
          }
          size_t pad = tr.chance(bigPct) ? tr.pick(std::vector<size_t>{65536, 300000, 524288, 1048576, 1100000}) : tr.pick(std::vector<size_t>{0, 10, 200});
          tlsI = i;
          evEmit(J().str("e", "Call").num("thr", t + 1).num("i", i).boolean("silenced", silent));
          Oomd::LogStream(*log) << "MSG:" << (t + 1) << ":" << i << ":" << std::string(pad, 'x');
          evEmit(J().str("e", "Ret").num("thr", t + 1).num("i", i));
          if (tr.chance(10)) std::this_thread::sleep_for(std::chrono::microseconds(200));
        }
        if (silent) Oomd::LogStream(*log) << Oomd::LogStream::Control::ENABLE;
        // the kmsg kill record is written even while this thread's debug log is silenced
        Oomd::LogStream(*log) << Oomd::LogStream::Control::DISABLE;
        log->kmsgLog("victim " + std::to_string(t + 1), "oomd kill");
        Oomd::LogStream(*log) << Oomd::LogStream::Control::ENABLE;
      });
    }
    for (auto& th : ths) th.join();
    if (stall) { std::this_thread::sleep_for(std::chrono::milliseconds(5)); sb.block(false); }
    log.reset(); // destructor: stop, flush, join
    evEmit(J().str("e", "ShutdownDone"));
    // kmsg file: one record per thread
    { std::string all; char buf[4096]; int fd = ::open(kmsgPath.c_str(), O_RDONLY); ssize_t n; while (fd >= 0 && (n = ::read(fd, buf, sizeof buf)) > 0) all.append(buf, n); if (fd >= 0) ::close(fd);
      int recs = 0; size_t p = 0; while ((p = all.find("oomd kill: victim ", p)) != std::string::npos) { recs++; p++; }
      evEmit(J().str("e", "SEnd").num("kmsgRecords", recs).num("threads", nThreads)); unlink(kmsgPath.c_str()); }
  }
  evFlush();
  _exit(0);
}
