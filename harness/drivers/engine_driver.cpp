// Conformance driver for the rule engine (C02 C05 C06 C11 C13): generates configurations, return
// value scripts, clock advances, drop-in operations and cgroup-world histories from a seed, runs
// them through the REAL ConfigCompiler / Engine / Ruleset / DetectorGroup / DropInServiceAdaptor
// with scripted plugins, and records every observable event for Engine_Trace.tla.
//
// usage: engine_driver <trace.ndjson> <seed> <nScenarios> <profile: plain|dropin|cg|mixed|enum>
#include <algorithm>
#include <cstdio>
#include <cstdlib>
#include <iostream>
#include <random>
#include <set>
#include <sstream>
#include <unistd.h>

#include "../common/evlog.h"
#include "../common/interpose.h"
#include "../common/scripted.h"
#include "../common/simfs.h"
#include "../common/vclock.h"

#include "oomd/Log.h"
#include "oomd/OomdContext.h"
#include "oomd/Stats.h"
#include "oomd/config/ConfigCompiler.h"
#include "oomd/config/ConfigTypes.h"
#include "oomd/dropin/DropInServiceAdaptor.h"
#include "oomd/engine/Engine.h"
#include "oomd/include/CoreStats.h"

using namespace verif;
namespace IR = Oomd::Config2::IR;

struct PlugS { std::string id; int delay = -1; std::string cg; };
struct GroupS { std::string name; std::vector<PlugS> dets; };
struct RsS {
  std::string name;
  std::vector<GroupS> groups;
  std::vector<PlugS> acts;
  int delay = -1, timeout = -1; // -1 = not given (defaults 15 / 5)
  std::string silence;
  std::vector<std::string> pat; // cgroup pattern components
  std::string filter;
  bool dod = false, pd = false, pa = false;
};
struct HookS { std::string id; std::vector<std::string> pats; };
struct UnitS { std::vector<RsS> rulesets; std::vector<HookS> hooks; };

static std::string join(const std::vector<std::string>& v, const char* sep) {
  std::string o;
  for (size_t i = 0; i < v.size(); i++) { if (i) o += sep; o += v[i]; }
  return o;
}
static std::string plugJson(const PlugS& p) {
  return J().str("id", p.id).num("serial", 0).num("delay", p.delay).str("cg", p.cg).done();
}
static std::string groupsJson(const std::vector<GroupS>& gs) {
  std::vector<std::string> o;
  for (auto& g : gs) {
    std::vector<std::string> ds;
    for (auto& d : g.dets) ds.push_back(plugJson(d));
    o.push_back(J().str("name", g.name).raw("dets", J::arr(ds)).done());
  }
  return J::arr(o);
}
static std::string actsJson(const std::vector<PlugS>& as) {
  std::vector<std::string> o;
  for (auto& a : as) o.push_back(plugJson(a));
  return J::arr(o);
}
static std::string rsJson(const RsS& r) {
  return J().str("name", r.name).str("tag", "").str("kind", "base")
      .raw("groups", groupsJson(r.groups)).raw("acts", actsJson(r.acts))
      .num("delay", r.delay < 0 ? 15 : r.delay).num("timeout", r.timeout < 0 ? 5 : r.timeout)
      .raw("pat", J::strArr(r.pat)).str("filter", r.filter)
      .boolean("dod", r.dod).boolean("pd", r.pd).boolean("pa", r.pa)
      .raw("target", "[\"-\"]").done();
}
static std::string hookJson(const HookS& h) {
  std::vector<std::string> ps;
  for (auto& p : h.pats) ps.push_back(pathJson(p));
  return J().str("id", h.id).raw("pats", J::arr(ps)).done();
}
static std::string unitJson(const UnitS& u) {
  std::vector<std::string> rs, hs;
  for (auto& r : u.rulesets)
    rs.push_back(J().str("name", r.name).raw("groups", groupsJson(r.groups))
                     .raw("acts", actsJson(r.acts)).done());
  for (auto& h : u.hooks) hs.push_back(hookJson(h));
  return J().raw("rulesets", J::arr(rs)).raw("hooks", J::arr(hs)).done();
}

static void fillPlugin(IR::Plugin& out, const PlugS& p, const char* name) {
  out.name = name;
  out.args["id"] = p.id;
  if (p.delay >= 0) out.args["post_action_delay"] = std::to_string(p.delay);
  if (!p.cg.empty()) out.args["cgroup"] = p.cg;
}
static IR::Ruleset toIR(const RsS& r, bool dropin) {
  IR::Ruleset o;
  o.name = r.name;
  for (auto& g : r.groups) {
    IR::DetectorGroup dg;
    dg.name = g.name;
    for (auto& d : g.dets) { IR::Detector x; fillPlugin(x, d, kDetName); dg.detectors.push_back(x); }
    o.dgs.push_back(dg);
  }
  for (auto& a : r.acts) { IR::Action x; fillPlugin(x, a, kActName); o.acts.push_back(x); }
  if (!dropin) {
    if (r.delay >= 0) o.post_action_delay = std::to_string(r.delay);
    if (r.timeout >= 0) o.prekill_hook_timeout = std::to_string(r.timeout);
    o.silence_logs = r.silence;
    o.dropin.disable_on_drop_in = r.dod;
    o.dropin.detectorgroups_enabled = r.pd;
    o.dropin.actiongroup_enabled = r.pa;
    o.cgroup = join(r.pat, "/");
    o.xattr_filter = r.filter;
  }
  return o;
}
static IR::PrekillHook toIR(const HookS& h) {
  IR::PrekillHook o;
  o.name = kHookName;
  o.args["id"] = h.id;
  o.args["cgroup"] = join(h.pats, ",");
  return o;
}

// DropInServiceAdaptor is abstract; this is the thinnest concrete subclass (same as the one the
// repository's own tests use) - compile and queueing are the real code.
class Adaptor : public Oomd::DropInServiceAdaptor {
 public:
  using DropInServiceAdaptor::DropInServiceAdaptor;
  bool add(const std::string& tag, const IR::Root& r) { return scheduleDropInAdd(tag, r); }
  void remove(const std::string& tag) { scheduleDropInRemove(tag); }
  int addOk = 0, addFail = 0, rmOk = 0;
 protected:
  void tick() override {}
  void handleDropInAddResult(const std::string&, bool ok) override { ok ? addOk++ : addFail++; }
  void handleDropInRemoveResult(const std::string&, bool) override { rmOk++; }
};

struct Rng {
  std::mt19937_64 g;
  explicit Rng(uint64_t s) : g(s) {}
  int upto(int n) { return (int)(g() % (uint64_t)n); } // 0..n-1
  bool chance(int pct) { return upto(100) < pct; }
  template <class T> const T& pick(const std::vector<T>& v) { return v[upto((int)v.size())]; }
};

static const std::vector<std::string> kSilence = {"", "", "engine", "plugins", "engine,plugins", " plugins , engine "};

// knobs of a scenario family; each property's check uses the family that exercises it
struct Profile {
  bool cg = false, drop = false;
  std::vector<int> rsDelays{0, 1, 2, 3};   int rsDelayPct = 75;   // else default 15 s
  std::vector<int> ownDelays{0, 1, 2, 3};  int ownDelayPct = 35;
  std::vector<int> dts{0, 1, 999, 1000, 1001, 2000, 2999, 3000, 5000, 15000};
  std::vector<int> actStop{20, 35, 60}, actAsync{10, 30, 50}, detStop{10, 25, 50};
  int detAsyncPct = 30;
  std::vector<int> advPct{0, 0, 10, 30};
  int minTicks = 3, maxTicks = 10;
};
static Profile profileOf(const std::string& n) {
  Profile p;
  if (n == "c05") {
    p.rsDelays = {1, 2, 3}; p.rsDelayPct = 90; p.ownDelayPct = 55;
    p.dts = {0, 1, 999, 1000, 1001, 1999, 2000, 2001, 2999, 3000, 3001};
    p.actStop = {40, 60}; p.actAsync = {20, 35}; p.detStop = {10, 20}; p.maxTicks = 12;
  } else if (n == "c06") {
    p.rsDelays = {0}; p.rsDelayPct = 100; p.ownDelayPct = 0;
    p.actStop = {10, 20}; p.actAsync = {45, 60}; p.detStop = {25, 50}; p.maxTicks = 12;
    p.drop = true;   // drop-ins come and go while chains are suspended (a suspended chain of the base must survive)
  } else if (n == "c11" || n == "cg") {
    p.cg = true; p.rsDelays = {0, 1, 2};
  } else if (n == "c13" || n == "dropin") {
    p.drop = true; p.rsDelays = {0}; p.rsDelayPct = 100; p.ownDelayPct = 0;
    p.actAsync = {0, 0, 15}; p.detStop = {0, 15};
    p.cg = true;   // base rulesets scoped by a cgroup pattern are targeted (and disabled) by drop-ins too
  } else if (n == "mixed") {
    p.cg = true; p.drop = true;
  }
  return p;
}

static RsS genRuleset(Rng& r, const std::string& name, const Profile& pf) {
  RsS rs;
  rs.name = name;
  int ng = 1 + r.upto(3);
  for (int g = 0; g < ng; g++) {
    GroupS gs;
    gs.name = name + ".g" + std::to_string(g);
    int nd = 1 + r.upto(r.chance(70) ? 2 : 3);
    for (int d = 0; d < nd; d++) gs.dets.push_back({gs.name + ".d" + std::to_string(d)});
    rs.groups.push_back(gs);
  }
  int na = 1 + r.upto(3);
  for (int a = 0; a < na; a++) {
    PlugS p{name + ".a" + std::to_string(a)};
    if (r.chance(pf.ownDelayPct)) p.delay = r.pick(pf.ownDelays);
    rs.acts.push_back(p);
  }
  if (r.chance(pf.rsDelayPct)) rs.delay = r.pick(pf.rsDelays);
  if (r.chance(50)) rs.timeout = r.pick(std::vector<int>{0, 1, 2});
  rs.silence = r.pick(kSilence);
  if (pf.drop) {
    rs.dod = r.chance(40); rs.pd = r.chance(65); rs.pa = r.chance(65);
  }
  return rs;
}

struct World { std::map<std::string, std::set<std::string>> cgs; }; // rel path -> xattr names

static std::string worldJson(const World& w) {
  std::vector<std::string> o;
  for (auto& [p, tags] : w.cgs) {
    o.push_back(J().raw("path", pathJson(p))
                    .raw("tags", J::strArr(std::vector<std::string>(tags.begin(), tags.end()))).done());
  }
  return J::arr(o);
}
static void applyWorld(SimFs& fs, const World& from, const World& to) {
  for (auto& [p, _] : from.cgs) if (!to.cgs.count(p)) fs.rmcg(p);
  for (auto& [p, tags] : to.cgs) {
    fs.mkcg(p);
    for (auto& n : {std::string("user.f"), std::string("user.g")}) {
      // the attribute counts by its presence, whatever its value - also an empty one (setfattr -n NAME without -v)
      if (tags.count(n)) fs.setXattr(p, n, (std::hash<std::string>{}(p + n) % 3 == 0) ? "" : "1"); else fs.clearXattr(p, n);
    }
  }
}

int main(int argc, char** argv) {
  if (argc < 5) { fprintf(stderr, "usage\n"); return 2; }
  evOpen(argv[1]);
  uint64_t seed = strtoull(argv[2], nullptr, 10);
  int nScn = atoi(argv[3]);
  std::string profileArg = argv[4];
  int firstScn = argc > 5 ? atoi(argv[5]) : 0;
  installAbortHandlers();
  std::ostringstream sink; // swallow debug logs
  Oomd::Log::get(-1, sink, true);
  { static std::string sp = std::string(getenv("VERIF_TMP") ? getenv("VERIF_TMP") : "/tmp") + "/vstats." + std::to_string(getpid()) + ".sock"; Oomd::Stats::init(sp); }
  vclockEnable(true);
  ip().active = true;

  for (int scn = firstScn; scn < firstScn + nScn; scn++) {
    Rng r(seed * 1000003ULL + scn);
    std::string profile = profileArg;
    Profile pf = profileOf(profile);
    // every family also meets rulesets scoped by a ruleset-level cgroup pattern (per-cgroup instances that are created,
    // prerun, suspended, paused and discarded as cgroups come and go): a third of the scenarios of the other families
    if (!pf.cg && r.chance(34)) pf.cg = true;
    SimFs fs;
    ip().base = fs.base();
    resetScenario();
    Oomd::setStat(Oomd::CoreStats::kNumDropInAdds, 0);
    Oomd::setStat(Oomd::CoreStats::kNumDropInFired, 0);

    // ---------------- configuration
    std::vector<RsS> cfg;
    int nrs = 1 + r.upto(3);
    for (int i = 0; i < nrs; i++) cfg.push_back(genRuleset(r, "r" + std::to_string(i), pf));
    std::vector<std::string> cgNames = {"a/x", "a/y", "a/z", "b", "ab/x"};
    bool useCg = pf.cg;
    if (useCg) {
      for (auto& rs : cfg) {
        if (r.chance(70)) {
          rs.pat = r.chance(70) ? std::vector<std::string>{"a", "*"} : std::vector<std::string>{"a", "x"};
          if (r.chance(50)) rs.filter = "user.f";
          if (r.chance(25)) rs.acts[r.upto((int)rs.acts.size())].cg = "b";
        }
      }
    }
    std::vector<HookS> hooks;
    bool useDrop = pf.drop;
    if (useDrop) {
      int nh = r.upto(3);
      for (int i = 0; i < nh; i++)
        hooks.push_back({"hb" + std::to_string(i), {r.pick(std::vector<std::string>{"a", "a/*", "*/x", "b", "/"})}});
    }
    World world;
    if (useCg) {
      for (auto& n : cgNames) if (r.chance(55)) {
        std::set<std::string> tags;
        if (r.chance(65)) tags.insert("user.f");
        world.cgs[n] = tags;
      }
      // parents exist whenever a child exists
      World w2 = world;
      for (auto& [p, t] : world.cgs) { auto s = p.find('/'); if (s != std::string::npos && !w2.cgs.count(p.substr(0, s))) w2.cgs[p.substr(0, s)] = {}; }
      world = w2;
    }
    applyWorld(fs, World{}, world);

    int64_t t = 1000000 + r.upto(1000);
    vclockSet(t);
    evEmit(J().str("e", "Reset").num("scn", scn).str("profile", profile).num("seed", (long long)seed));

    IR::Root root;
    for (auto& rs : cfg) root.rulesets.push_back(toIR(rs, false));
    for (auto& h : hooks) root.prekill_hooks.push_back(toIR(h));
    Oomd::PluginConstructionContext pcc(fs.root());
    auto engine = Oomd::Config2::compile(root, pcc);
    {
      std::vector<std::string> cj, hj;
      for (auto& rs : cfg) cj.push_back(rsJson(rs));
      for (auto& h : hooks) hj.push_back(hookJson(h));
      evEmit(J().str("e", "Boot").boolean("ok", engine != nullptr).num("t", t)
                 .raw("cfg", J::arr(cj)).raw("hooks", J::arr(hj)).raw("world", worldJson(world)));
    }
    if (!engine) continue;
    Oomd::OomdContext ctx;
    ctx.setPrekillHooksHandler([&](const Oomd::CgroupContext& cg) { return engine->firePrekillHook(cg, ctx); });
    Adaptor adaptor(fs.root(), root, *engine);

    // ---------------- script
    int detStop = r.pick(pf.detStop);
    int detAsync = r.chance(pf.detAsyncPct) ? 10 : 0;
    int actStop = r.pick(pf.actStop);
    int actAsync = r.pick(pf.actAsync);
    int advPct = r.pick(pf.advPct);
    setDecider([&](const CallInfo& c) {
      Decision d;
      int x = r.upto(100);
      if (c.isAction) d.ret = x < actStop ? 1 : (x < actStop + actAsync ? 2 : 0);
      else d.ret = x < detStop ? 1 : (x < detStop + detAsync ? 2 : 0);
      if (r.chance(advPct)) d.advMs = r.pick(std::vector<int>{1, 250, 1000, 1500});
      return d;
    });

    std::vector<std::string> tags = {"t1", "t2", "t3"};
    int nTicks = pf.minTicks + r.upto(pf.maxTicks - pf.minTicks + 1);
    for (int k = 0; k < nTicks; k++) {
      // ----- environment between ticks
      if (useCg && r.chance(60)) {
        World nw = world;
        int edits = 1 + r.upto(3);
        for (int e2 = 0; e2 < edits; e2++) {
          auto n = r.pick(cgNames);
          if (nw.cgs.count(n)) {
            int c = r.upto(3);
            if (c == 0) nw.cgs.erase(n);
            else if (c == 1) { if (nw.cgs[n].count("user.f")) nw.cgs[n].erase("user.f"); else nw.cgs[n].insert("user.f"); }
            else nw.cgs.clear(); // everything vanishes at once
          } else {
            std::set<std::string> tg; if (r.chance(70)) tg.insert("user.f");
            nw.cgs[n] = tg;
            auto s = n.find('/'); if (s != std::string::npos && !nw.cgs.count(n.substr(0, s))) nw.cgs[n.substr(0, s)] = {};
          }
        }
        // a parent that vanished takes its children with it
        World n2;
        for (auto& [p, tg] : nw.cgs) { auto s = p.find('/'); if (s == std::string::npos || nw.cgs.count(p.substr(0, s))) n2.cgs[p] = tg; }
        applyWorld(fs, world, n2);
        world = n2;
        evEmit(J().str("e", "World").raw("world", worldJson(world)));
      }
      if (useDrop) {
        int nops = r.upto(3);
        for (int o = 0; o < nops; o++) {
          auto tag = r.pick(tags);
          if (r.chance(30)) {
            adaptor.remove(tag);
            adaptor.updateDropIns();
            evEmit(J().str("e", "DropRemove").str("tag", tag));
          } else {
            UnitS u;
            int nr = 1 + (r.chance(35) ? 1 : 0) + (r.chance(10) ? 1 : 0);
            std::set<std::string> usedNames;
            for (int q = 0; q < nr; q++) {
              RsS d;
              d.name = r.chance(q == 1 ? 30 : 10) ? "ghost" : cfg[r.upto((int)cfg.size())].name;
              // one file may name the same base twice (e.g. detectors in one entry, actions in another): mostly avoided,
              // sometimes kept
              if (usedNames.count(d.name) && !r.chance(40)) continue;
              usedNames.insert(d.name);
              std::string pfx = tag + "." + std::to_string(k) + "." + std::to_string(o) + "." + std::to_string(q);
              if (r.chance(55)) { GroupS g; g.name = pfx + ".g"; int nd = 1 + r.upto(2); for (int z = 0; z < nd; z++) g.dets.push_back({pfx + ".d" + std::to_string(z)}); d.groups.push_back(g); }
              if (r.chance(55)) { int na = 1 + r.upto(2); for (int z = 0; z < na; z++) { PlugS p{pfx + ".a" + std::to_string(z)}; if (r.chance(30)) p.delay = r.upto(3); d.acts.push_back(p); } }
              u.rulesets.push_back(d);
            }
            if (r.chance(40)) u.hooks.push_back({tag + ".h" + std::to_string(k), {r.pick(std::vector<std::string>{"a", "a/*", "*/x", "b"})}});
            IR::Root dr;
            for (auto& d : u.rulesets) dr.rulesets.push_back(toIR(d, true));
            for (auto& h : u.hooks) dr.prekill_hooks.push_back(toIR(h));
            bool ghostLater = u.rulesets.size() >= 2 && u.rulesets[0].name != "ghost" && u.rulesets[1].name == "ghost";
            if (ghostLater && r.chance(70)) {
              // the ENGINE's own refusal: a unit whose first ruleset hits a known base and whose second one targets a
              // ruleset the engine does not have (compiled against a root that has it) - the engine must clean up what it
              // already took, exactly as the adaptor does: remove the tag, then try to add
              IR::Root rootG = root;
              RsS g = cfg[0]; g.name = "ghost"; g.dod = false; g.pd = true; g.pa = true; g.pat.clear(); g.filter.clear();
              rootG.rulesets.push_back(toIR(g, false));
              engine->removeDropInConfig(tag);
              evEmit(J().str("e", "DropRemove").str("tag", tag));
              auto unit = Oomd::Config2::compileDropIn(rootG, dr, pcc);
              bool ok = unit.has_value() && engine->addDropInConfig(tag, std::move(*unit));
              unit.reset();
              evEmit(J().str("e", "DropAdd").str("tag", tag).boolean("ok", ok).raw("unit", unitJson(u)).boolean("engineLevel", true));
            } else {
            bool ok = adaptor.add(tag, dr);
            adaptor.updateDropIns();
            evEmit(J().str("e", "DropAdd").str("tag", tag).boolean("ok", ok).raw("unit", unitJson(u)));
            }
          }
          auto st = Oomd::getStats();
          evEmit(J().str("e", "Stat").num("added", st[Oomd::CoreStats::kNumDropInAdds])
                     .num("fired", st[Oomd::CoreStats::kNumDropInFired]));
        }
      }
      // ----- the tick
      int dt = r.pick(pf.dts);
      if (k > 0) vclockAdvance(dt);
      evEmit(J().str("e", "TickBegin").num("t", vclockNowMs()));
      ctx.refresh();
      ctx.bumpCurrentTick();
      // sometimes every init() of this tick reports failure (the engine only constructs objects inside a tick when it
      // builds the instance of a newly matching cgroup): the instance is still the configured ruleset, complete
      bool initsFail = useCg && r.chance(12);
      if (initsFail) setInitReportsFailure(true);
      engine->prerun(ctx);
      engine->runOnce(ctx);
      if (initsFail) setInitReportsFailure(false);
      evEmit(J().str("e", "TickEnd").num("t", vclockNowMs()));
      auto st = Oomd::getStats();
      evEmit(J().str("e", "Stat").num("added", st[Oomd::CoreStats::kNumDropInAdds])
                 .num("fired", st[Oomd::CoreStats::kNumDropInFired]));
    }
    setDecider([](const CallInfo&) { return Decision{}; });
    evEmit(J().str("e", "EndScenario"));
    // engine, adaptor destroyed here -> Dtor events belong to this scenario's tail
  }
  evFlush();
  fflush(stdout);
  _exit(0);
}
