SPECIFICATION TraceSpec
CONSTRAINT TraceProgress
POSTCONDITION TraceAccepted
INVARIANTS Containment OrderRespected NoDescentBelowOomGroup UnpopulatedNeverAttempted DryIsPure NoSignalWhileHookOutstanding AtMostOneInvocation OneFirePerVictim RetMapping
CHECK_DEADLOCK FALSE
