-------------------------- MODULE MC_DropInWatcher --------------------------
(* Stage S for C14: every interleaving of a bounded number of file operations (put / truncating write in    *)
(* two kernel steps / delete / rename / rmdir / mkdir) over two visible names and one dot name with two      *)
(* valid versions and one invalid content, with the watcher thread and the main loop.                        *)
EXTENDS DropInWatcher
CONSTANTS Budget
NameOrder == <<".h", "a", "b", "c">>
VARIABLES budget, wr   \* operations left; a truncating write in progress: [n, c] or NoWr
NoWr == [n |-> "", c |-> None]
Contents == {[k |-> "valid", v |-> 1], [k |-> "valid", v |-> 2], [k |-> "bad", v |-> 0]}
Idx(x) == CHOOSE i \in DOMAIN NameOrder : NameOrder[i] = x
MCLess(x, y) == Idx(x) < Idx(y)
mcvars == <<dvars, budget, wr>>
\* start-up with any set of files already present
MCInit == /\ \E f0 \in [Names -> {None, [k |-> "valid", v |-> 1], [k |-> "bad", v |-> 0]}], g \in {0, 1} :
               (g = 0 => f0 = [n \in Names |-> None]) /\ DInit(f0, g)
          /\ budget = Budget /\ wr = NoWr
Env ==
  \/ /\ budget > 0 /\ wr = NoWr /\ budget' = budget - 1 /\ UNCHANGED wr
     /\ \/ \E n \in Names, c \in Contents : KPut(n, c)
        \/ \E n \in Names : KDel(n)
        \/ \E a, b \in Names : KRename(a, b)
        \/ KRmDir \/ KMkDir
  \/ /\ budget > 0 /\ wr = NoWr /\ budget' = budget - 1
     /\ \E n \in Names, c \in Contents : KTrunc(n) /\ wr' = [n |-> n, c |-> c]
  \* a transient failure of the (re-)registration costs one unit of the budget too
  \/ /\ budget > 0 /\ wr = NoWr /\ budget' = budget - 1 /\ UNCHANGED wr /\ MRegFail
  \* second kernel step of the write (if the directory vanished meanwhile the write still hits the open file: dropped)
  \/ /\ wr # NoWr /\ wr' = NoWr /\ UNCHANGED budget
     /\ IF dirGen # 0 /\ files[wr.n] # None THEN KWrite(wr.n, wr.c) ELSE UNCHANGED dvars
\* the service runs for ever (convergence) ...
MCNext == Env \/ (WNext /\ UNCHANGED <<budget, wr>>) \/ (MLoop /\ UNCHANGED <<budget, wr>>)
MCSpec == MCInit /\ [][MCNext]_mcvars /\ WF_mcvars(WNext /\ UNCHANGED <<budget, wr>>) /\ WF_mcvars(MLoop /\ UNCHANGED <<budget, wr>>)
             /\ WF_mcvars(wr # NoWr /\ Env)
\* ... or is destroyed at any idle moment (shutdown)
MCNextStop == Env \/ (WNext /\ UNCHANGED <<budget, wr>>) \/ (MNext /\ UNCHANGED <<budget, wr>>)
MCSpecStop == MCInit /\ [][MCNextStop]_mcvars /\ WF_mcvars(WNext /\ UNCHANGED <<budget, wr>>) /\ WF_mcvars(MNext /\ UNCHANGED <<budget, wr>>)
ShutdownCompletes == stopping ~> (mpc = "gone")
\* once the file system is quiet the engine converges to the valid non-dot files present and stays there
Converges == <>[](active = Expected)
\* the invariant form: with nothing in flight anywhere (and no write half done) the engine matches the directory
MCConverged == (Settled /\ wr = NoWr) => active = Expected
\* start-up loads in name order: while the constructor scans, what is queued is sorted by name
StartupOrder == ~started => \A i, j \in DOMAIN queue : i < j => MCLess(queue[i].tag, queue[j].tag)
=============================================================================
