SPECIFICATION MCSpec
CONSTANTS
  MCShapes <- ShapeTiny
  MCPats <- PatsStar
  MCHooks <- HooksNone
  MCFlags <- FlagsMain
  MCAttrs <- AttrLite
  MCPlugins = {"kill_by_memory_size_or_growth", "kill_by_pg_scan"}
  MaxTicksK = 2
  TimeoutsK = {2}
  MaxOpens = 2
  EnvEdits = TRUE
  MidRun = "cand"
INVARIANTS Containment OrderRespected NoDescentBelowOomGroup UnpopulatedNeverAttempted DryIsPure NoSignalWhileHookOutstanding AtMostOneInvocation OneFirePerVictim RetMapping NoFireAfterWindow
CHECK_DEADLOCK FALSE
