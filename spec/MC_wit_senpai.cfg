SPECIFICATION MCWitSpec
CONSTANTS
  Modes = {"normal", "immediate"}
  MaxTicksP = 3
  Small = TRUE
CONSTRAINT WitnessAcc
POSTCONDITION WitnessReport
CHECK_DEADLOCK FALSE
