SPECIFICATION MCWitSpec
CONSTANTS
  MCConfigs <- CfgCg
  MCUnits <- NoUnits
  MCTags = {}
  MaxTicks = 3
  MaxOps = 0
  DTs = {1000}
  Advs = {0}
  DetRets = {"CONTINUE"}
  ActRets = {"CONTINUE", "STOP"}
  ProbePaths = {}
CONSTRAINT WitnessAcc
POSTCONDITION WitnessReport
CHECK_DEADLOCK FALSE
