SPECIFICATION MCWitSpec
CONSTANTS
  MCShapes <- ShapeTiny
  MCPats <- PatsStar
  MCHooks <- HooksNone
  MCFlags <- FlagsWit
  MCAttrs <- AttrWit
  MCPlugins = {"kill_by_memory_size_or_growth"}
  MaxTicksK = 1
  TimeoutsK = {2}
  MaxOpens = 1
  EnvEdits = FALSE
  MidRun = "cand"
CONSTRAINT WitnessAcc
POSTCONDITION WitnessReport
CHECK_DEADLOCK FALSE
