---------------------------- MODULE DropInWatcher ----------------------------
(***************************************************************************)
(* C14: the drop-in directory watcher (FsDropInService + DropInServiceAdaptor).*)
(*                                                                         *)
(* Three parties: the file system / kernel (environment), the watcher      *)
(* thread [epoll + inotify, processDropInAdd or Remove, then schedule] and *)
(* the main loop (tick: re-register the watch when the directory was       *)
(* deleted, swap the hand-off queue, apply it to the engine, run).         *)
(* One action per kernel-atomic step or critical section:                  *)
(*   kernel : KPut KTrunc KWrite KCreate KDel KRename KRmDir KMkDir         *)
(*   watcher: WWake WLock WRead WTake WReadFile WSched WSchedRm WUnlock     *)
(*   main   : MTick MPrep MReg MRegDone MList MScanRead MScanSched MScanDone *)
(*            MApply MRun                                                  *)
(* A file's content is read when its event is PROCESSED, not when the      *)
(* event was generated; the inotify queue keeps order and may coalesce an  *)
(* event with an identical last one; deregistration drops what is queued.  *)
(***************************************************************************)
EXTENDS Integers, Sequences, FiniteSets, TLC

CONSTANTS Names,            \* file names that may appear in the directory
          DotNames,         \* the subset starting with '.'
          RemoveOnInvalid   \* TRUE: an unusable file removes what was injected for it (the code as repaired)

None == [k |-> "none", v |-> 0]
Valid(c) == c.k = "valid"

VARIABLES
  dirGen,     \* 0: the directory does not exist; else the generation (inode) of the existing one
  dirSeq,     \* generations used so far
  files,      \* name -> content record [k, v] or None (by PATH: the current directory's files)
  watchGen,   \* generation the inotify watch is on (0: none)
  inq,        \* kernel inotify queue: sequence of [c |-> "add"|"rm"|"self", n |-> name]
  dirDeleted, \* drop_in_dir_deleted_
  started,    \* the constructor finished and the watcher thread runs
  stopping,   \* the destructor has signalled the watcher (terminatefd)
  wpc, wbuf, wev, wcontent,   \* watcher: pc, events read into the user buffer, event in hand, content read
  wterm,      \* this wake-up of the watcher includes the terminate fd
  evLock,     \* event_loop_mutex_: "none" | "w" | "m"
  queue,      \* drop_in_queue_ (under queue_mutex_): sequence of [tag, unit]; unit None = remove
  active,     \* engine: tag -> content record of the injected drop-in, or None
  mpc, mbatch, mscan, mcontent  \* main: pc, swapped-out queue, files still to load, content read

wvars == <<wpc, wbuf, wev, wcontent, wterm>>
mvars == <<mpc, mbatch, mscan, mcontent>>
fsvars == <<dirGen, dirSeq, files>>
dvars == <<dirGen, dirSeq, files, watchGen, inq, dirDeleted, started, stopping, wpc, wbuf, wev, wcontent, wterm, evLock, queue, active,
           mpc, mbatch, mscan, mcontent>>

NoEv == [c |-> "none", n |-> ""]
\* the constructor runs prepDropInWatcher before the watcher thread exists
DInit(f0, gen0) ==
  /\ dirGen = gen0 /\ dirSeq = gen0 /\ files = f0
  /\ watchGen = 0 /\ inq = <<>> /\ dirDeleted = TRUE /\ started = FALSE /\ stopping = FALSE
  /\ wpc = "wait" /\ wbuf = <<>> /\ wev = NoEv /\ wcontent = None /\ wterm = FALSE
  /\ evLock = "none" /\ queue = <<>> /\ active = [n \in Names |-> None]
  /\ mpc = "prep" /\ mbatch = <<>> /\ mscan = <<>> /\ mcontent = None

IsDot(n) == n \in DotNames
\* names in ascending order (the initial load sorts the directory listing); Less is the order on names
CONSTANT Less(_, _)
SortedSeq(S) ==
  LET RECURSIVE Srt(_)
      Srt(T) == IF T = {} THEN <<>> ELSE LET m == CHOOSE x \in T : \A y \in T : x = y \/ Less(x, y) IN <<m>> \o Srt(T \ {m})
  IN Srt(S)

\* ---- kernel: an event is queued only for the watched generation; identical to the last one it may coalesce
Emit(q, ev) == IF watchGen # 0 /\ watchGen = dirGen THEN {Append(q, ev)} \cup (IF q # <<>> /\ q[Len(q)] = ev THEN {q} ELSE {}) ELSE {q}
EmitOpt(q, ev) == Emit(q, ev) \cup {q}
KUnch == UNCHANGED <<watchGen, dirDeleted, started, stopping, wvars, evLock, queue, active, mvars>>
\* rename of a file prepared elsewhere into the directory (atomic replace): IN_MOVED_TO
KPut(n, c) == dirGen # 0 /\ files' = [files EXCEPT ![n] = c] /\ inq' \in Emit(inq, [c |-> "add", n |-> n]) /\ UNCHANGED <<dirGen, dirSeq>> /\ KUnch
\* open(O_CREAT|O_TRUNC): creates the file empty or truncates it (IN_MODIFY only when it existed)
KTrunc(n) == /\ dirGen # 0 /\ files' = [files EXCEPT ![n] = [k |-> "empty", v |-> 0]]
             /\ inq' \in (IF files[n] = None THEN {inq} ELSE EmitOpt(inq, [c |-> "add", n |-> n]))
             /\ UNCHANGED <<dirGen, dirSeq>> /\ KUnch
\* write(2) of the whole content c into an existing file: IN_MODIFY
KWrite(n, c) == dirGen # 0 /\ files[n] # None /\ files' = [files EXCEPT ![n] = c] /\ inq' \in Emit(inq, [c |-> "add", n |-> n]) /\ UNCHANGED <<dirGen, dirSeq>> /\ KUnch
KDel(n) == dirGen # 0 /\ files[n] # None /\ files' = [files EXCEPT ![n] = None] /\ inq' \in Emit(inq, [c |-> "rm", n |-> n]) /\ UNCHANGED <<dirGen, dirSeq>> /\ KUnch
\* rename inside the directory: IN_MOVED_FROM a then IN_MOVED_TO b
KRename(a, b) ==
  /\ dirGen # 0 /\ files[a] # None /\ a # b
  /\ files' = [files EXCEPT ![a] = None, ![b] = files[a]]
  /\ \E q1 \in Emit(inq, [c |-> "rm", n |-> a]) : inq' \in Emit(q1, [c |-> "add", n |-> b])
  /\ UNCHANGED <<dirGen, dirSeq>> /\ KUnch
\* rmdir of the (empty) directory: IN_DELETE_SELF, the kernel drops the watch
KRmDir == /\ dirGen # 0 /\ \A n \in Names : files[n] = None
          /\ inq' \in Emit(inq, [c |-> "self", n |-> ""]) /\ dirGen' = 0 /\ UNCHANGED <<dirSeq, files>> /\ KUnch
KMkDir == dirGen = 0 /\ dirGen' = dirSeq + 1 /\ dirSeq' = dirSeq + 1 /\ UNCHANGED <<files, inq>> /\ KUnch

\* ---- what processDropInAdd schedules for content c of a non-dot file
\* valid: add; otherwise (repaired code) remove, (original code) nothing
SchedFor(n, c) == IF Valid(c) THEN <<[tag |-> n, unit |-> c]>> ELSE IF RemoveOnInvalid THEN <<[tag |-> n, unit |-> None]>> ELSE <<>>

\* ---- watcher thread
WUnch == UNCHANGED <<fsvars, started, stopping, mvars, active>>
WWake == started /\ wpc = "wait" /\ (inq # <<>> \/ stopping) /\ wpc' = "woken" /\ wterm' = stopping /\ UNCHANGED <<wbuf, wev, wcontent, watchGen, inq, dirDeleted, evLock, queue>> /\ WUnch
WLock == wpc = "woken" /\ evLock = "none" /\ evLock' = "w" /\ wpc' = "read" /\ UNCHANGED <<wbuf, wev, wcontent, wterm, watchGen, inq, dirDeleted, queue>> /\ WUnch
\* read(2) on the inotify fd: some non-empty prefix of what is queued; EAGAIN ends the loop
\* (the fd may have been closed by a "self" event handled in this same critical section)
WRead == /\ wpc = "read"
         /\ IF inq = <<>> THEN wpc' = (IF wterm THEN "exit" ELSE "unlock") /\ UNCHANGED <<wbuf, inq>>
            ELSE \E k \in 1..Len(inq) : wbuf' = SubSeq(inq, 1, k) /\ inq' = SubSeq(inq, k + 1, Len(inq)) /\ wpc' = "take"
         /\ UNCHANGED <<wev, wcontent, wterm, watchGen, dirDeleted, evLock, queue>> /\ WUnch
\* next event of the buffer
WTake == /\ wpc = "take" /\ wbuf # <<>>
         /\ LET e == Head(wbuf) IN
            /\ wev' = e
            /\ CASE e.c = "self" ->   \* deregister: stale watch gone, pending events and the rest of the buffer dropped
                      /\ wbuf' = <<>> /\ wpc' = "dereg" /\ UNCHANGED <<watchGen, inq, dirDeleted, queue>>
                 [] e.c = "rm" ->     \* dot files are ignored, for others a removal is handed off next
                      /\ wbuf' = Tail(wbuf)
                      /\ wpc' = IF IsDot(e.n) THEN (IF Tail(wbuf) = <<>> THEN "read" ELSE "take") ELSE "schedrm"
                      /\ UNCHANGED <<watchGen, inq, dirDeleted, queue>>
                 [] OTHER ->          \* add: dot files are ignored, others are read next
                      /\ wbuf' = Tail(wbuf)
                      /\ wpc' = IF IsDot(e.n) THEN (IF Tail(wbuf) = <<>> THEN "read" ELSE "take") ELSE "readfile"
                      /\ UNCHANGED <<watchGen, inq, dirDeleted, queue>>
         /\ UNCHANGED <<wcontent, wterm, evLock>> /\ WUnch
\* deregister: the stale inotify fd is closed, what was still queued on it is lost
WDereg == /\ wpc = "dereg" /\ watchGen' = 0 /\ inq' = <<>> /\ wpc' = "setdeleted"
          /\ UNCHANGED <<wbuf, wev, wcontent, wterm, dirDeleted, evLock, queue>> /\ WUnch
\* ... and only then the flag the main loop polls is raised
WSetDeleted == /\ wpc = "setdeleted" /\ dirDeleted' = TRUE /\ wpc' = (IF wterm THEN "exit" ELSE "unlock")
               /\ UNCHANGED <<wbuf, wev, wcontent, wterm, watchGen, inq, evLock, queue>> /\ WUnch
\* the file is opened BY PATH and read now
WReadFile == /\ wpc = "readfile" /\ wcontent' = (IF dirGen = 0 THEN None ELSE files[wev.n]) /\ wpc' = "sched"
             /\ UNCHANGED <<wbuf, wev, wterm, watchGen, inq, dirDeleted, evLock, queue>> /\ WUnch
\* parse + compile on this thread, then the hand-off under queue_mutex_
WSched == /\ wpc = "sched" /\ queue' = queue \o SchedFor(wev.n, wcontent)
          /\ wpc' = IF wbuf = <<>> THEN "read" ELSE "take"
          /\ UNCHANGED <<wbuf, wev, wcontent, wterm, watchGen, inq, dirDeleted, evLock>> /\ WUnch
WSchedRm == /\ wpc = "schedrm" /\ queue' = Append(queue, [tag |-> wev.n, unit |-> None])
            /\ wpc' = IF wbuf = <<>> THEN "read" ELSE "take"
            /\ UNCHANGED <<wbuf, wev, wcontent, wterm, watchGen, inq, dirDeleted, evLock>> /\ WUnch
\* the terminate fd is readable: the loop returns and the thread ends (whatever is still queued is left)
\* (the terminate fd may come before or after the inotify fd in the ready list)
WExit == /\ (wpc = "exit" \/ (wpc = "read" /\ wterm)) /\ evLock' = "none" /\ wpc' = "exited"
         /\ UNCHANGED <<wbuf, wev, wcontent, wterm, watchGen, inq, dirDeleted, queue>> /\ WUnch
WUnlock == wpc = "unlock" /\ evLock' = "none" /\ wpc' = "wait" /\ UNCHANGED <<wbuf, wev, wcontent, wterm, watchGen, inq, dirDeleted, queue>> /\ WUnch
WNext == WWake \/ WLock \/ WRead \/ WTake \/ WDereg \/ WSetDeleted \/ WReadFile \/ WSched \/ WSchedRm \/ WUnlock \/ WExit

\* ---- main loop (and the constructor, which runs the same prepDropInWatcher before the thread starts)
MUnch == UNCHANGED <<fsvars, wvars, stopping>>
MTick == /\ mpc = "idle" /\ mpc' = "check"
         /\ UNCHANGED <<mbatch, mscan, mcontent, watchGen, inq, dirDeleted, started, evLock, queue, active>> /\ MUnch
\* tick(): the atomic flag is read without any lock
MCheck == /\ mpc = "check" /\ mpc' = IF dirDeleted THEN "prep" ELSE "swap"
          /\ UNCHANGED <<mbatch, mscan, mcontent, watchGen, inq, dirDeleted, started, evLock, queue, active>> /\ MUnch
AfterPrep == IF started THEN "swap" ELSE "ctordone"
\* isDir() fails: stays deleted
MPrep == /\ mpc = "prep" /\ mpc' = IF dirGen = 0 THEN AfterPrep ELSE "reg"
         /\ UNCHANGED <<mbatch, mscan, mcontent, watchGen, inq, dirDeleted, started, evLock, queue, active>> /\ MUnch
\* under event_loop_mutex_: inotify_add_watch (fails when the directory vanished meanwhile), then list the directory
\* The kernel-side registration is its own step: the hook point that reports it ("Reg") fires later, and whatever is
\* written to the directory in between already produces events.
MReg == /\ mpc = "reg" /\ evLock = "none"
        /\ IF dirGen = 0 THEN mpc' = "regf" /\ UNCHANGED <<evLock, watchGen, inq, mscan>>
           ELSE /\ evLock' = "m" /\ watchGen' = dirGen /\ inq' = <<>> /\ mpc' = "regd" /\ UNCHANGED mscan
        /\ UNCHANGED <<mbatch, mcontent, dirDeleted, started, queue, active>> /\ MUnch
\* transient failure of the registration (inotify_init1 / inotify_add_watch / epoll_ctl: EMFILE, ENOSPC, ENOMEM): nothing is
\* registered, the flag stays raised, a later tick tries again.  Not part of MLoop: an environment fault, budgeted by users
MRegFail == /\ mpc = "reg" /\ evLock = "none" /\ mpc' = "regf"
            /\ UNCHANGED <<mbatch, mscan, mcontent, watchGen, inq, dirDeleted, started, evLock, queue, active>> /\ MUnch
\* the outcome is reported (hook point), then the directory is listed / the attempt is given up
MRegDone == /\ mpc = "regd" /\ mpc' = "list"
            /\ UNCHANGED <<mbatch, mscan, mcontent, watchGen, inq, dirDeleted, started, evLock, queue, active>> /\ MUnch
MRegGiveUp == /\ mpc = "regf" /\ mpc' = AfterPrep
              /\ UNCHANGED <<mbatch, mscan, mcontent, watchGen, inq, dirDeleted, started, evLock, queue, active>> /\ MUnch
\* readDir, sorted: the files there NOW (changes after the registration are also reported as events)
MList == /\ mpc = "list" /\ mpc' = "scan"
         /\ mscan' = SortedSeq({n \in Names : dirGen # 0 /\ files[n] # None /\ ~IsDot(n)})
         /\ UNCHANGED <<mbatch, mcontent, watchGen, inq, dirDeleted, started, evLock, queue, active>> /\ MUnch
MScanRead == /\ mpc = "scan" /\ mscan # <<>> /\ mcontent' = (IF dirGen = 0 THEN None ELSE files[Head(mscan)]) /\ mpc' = "scansched"
             /\ UNCHANGED <<mbatch, mscan, watchGen, inq, dirDeleted, started, evLock, queue, active>> /\ MUnch
MScanSched == /\ mpc = "scansched" /\ queue' = queue \o SchedFor(Head(mscan), mcontent) /\ mscan' = Tail(mscan) /\ mpc' = "scan"
              /\ UNCHANGED <<mbatch, mcontent, watchGen, inq, dirDeleted, started, evLock, active>> /\ MUnch
MScanDone == /\ mpc = "scan" /\ mscan = <<>> /\ evLock' = "none" /\ dirDeleted' = FALSE /\ mpc' = AfterPrep
             /\ UNCHANGED <<mbatch, mscan, mcontent, watchGen, inq, started, queue, active>> /\ MUnch
MCtorDone == /\ mpc = "ctordone" /\ started' = TRUE /\ mpc' = "idle"
             /\ UNCHANGED <<mbatch, mscan, mcontent, watchGen, inq, dirDeleted, evLock, queue, active>> /\ MUnch
MSwap == /\ mpc = "swap" /\ mbatch' = queue /\ queue' = <<>> /\ mpc' = "apply"
         /\ UNCHANGED <<mscan, mcontent, watchGen, inq, dirDeleted, started, evLock, active>> /\ MUnch
\* remove, then re-add when there is a unit
MApply == /\ mpc = "apply" /\ mbatch # <<>>
          /\ active' = [active EXCEPT ![Head(mbatch).tag] = Head(mbatch).unit] /\ mbatch' = Tail(mbatch)
          /\ UNCHANGED <<mpc, mscan, mcontent, watchGen, inq, dirDeleted, started, evLock, queue>> /\ MUnch
MRun == /\ mpc = "apply" /\ mbatch = <<>> /\ mpc' = "idle"
        /\ UNCHANGED <<mbatch, mscan, mcontent, watchGen, inq, dirDeleted, started, evLock, queue, active>> /\ MUnch
\* destructor: signal the watcher; it returns once the thread has ended
MStop == /\ mpc = "idle" /\ started /\ ~stopping /\ stopping' = TRUE /\ mpc' = "joining"
         /\ UNCHANGED <<mbatch, mscan, mcontent, watchGen, inq, dirDeleted, started, evLock, queue, active, fsvars, wvars>>
MJoined == /\ mpc = "joining" /\ wpc = "exited" /\ mpc' = "gone"
           /\ UNCHANGED <<mbatch, mscan, mcontent, watchGen, inq, dirDeleted, started, evLock, queue, active, fsvars, wvars, stopping>>
MLoop == MTick \/ MCheck \/ MPrep \/ MReg \/ MRegDone \/ MRegGiveUp \/ MList \/ MScanRead \/ MScanSched \/ MScanDone \/ MCtorDone \/ MSwap \/ MApply \/ MRun
MNext == MLoop \/ MStop \/ MJoined

\* ---- properties
Expected == [n \in Names |-> IF ~IsDot(n) /\ dirGen # 0 /\ files[n] # None /\ Valid(files[n]) THEN files[n] ELSE None]
\* nothing in flight anywhere
Settled == /\ inq = <<>> /\ wbuf = <<>> /\ wpc = "wait" /\ queue = <<>> /\ mbatch = <<>> /\ mpc = "idle"
           /\ (dirDeleted => dirGen = 0) /\ (~dirDeleted => watchGen = dirGen)
ConvergedWhenSettled == Settled => active = Expected
LockDiscipline == /\ (evLock = "w") = (wpc \in {"read", "take", "readfile", "sched", "schedrm", "dereg", "setdeleted", "unlock", "exit"})
                  /\ (evLock = "m") = (mpc \in {"regd", "list", "scan", "scansched"})
\* dot files never reach the engine
NoDotActive == \A n \in DotNames : active[n] = None /\ \A i \in DOMAIN queue : queue[i].tag \notin DotNames
=============================================================================
