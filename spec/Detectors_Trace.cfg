SPECIFICATION TraceSpec
CONSTRAINT TraceProgress
POSTCONDITION TraceAccepted
INVARIANTS VerdictIsDoc SingleMissRestarts
CHECK_DEADLOCK FALSE
