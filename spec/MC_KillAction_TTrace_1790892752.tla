---- MODULE MC_KillAction_TTrace_1790892752 ----
EXTENDS Sequences, MC_KillAction, TLCExt, Toolbox, Naturals, TLC

_expression ==
    LET MC_KillAction_TEExpression == INSTANCE MC_KillAction_TEExpression
    IN MC_KillAction_TEExpression!expression
----

_trace ==
    LET MC_KillAction_TETrace == INSTANCE MC_KillAction_TETrace
    IN MC_KillAction_TETrace!trace
----

_inv ==
    ~(
        TLCGet("level") = Len(_TETrace)
        /\
        att = ([dry |-> FALSE, victim |-> <<>>, uuid |-> 0, nr |-> 0, read |-> {}, stage |-> "", via |-> {}, opens |-> 0, reaping |-> FALSE])
        /\
        stack = (<<[path |-> <<<<"a", "b">>>>, gen |-> 1, via |-> {<<<<"a">>>>, <<<<"a", "b">>>>}], [path |-> <<<<"a">>>>, gen |-> 1, via |-> {<<<<"a">>>>, <<<<"a", "b">>>>}]>>)
        /\
        kph = ("dfs")
        /\
        hk = ([path |-> <<>>, gen |-> 0, has |-> FALSE, stack |-> <<>>, inv |-> 0, via |-> {}])
        /\
        pgLast = (-1)
        /\
        kret = ("")
        /\
        kstat = (0)
        /\
        mcPids = ((<<<<"a">>>> :> {11, 12} @@ <<<<"a", "b">>>> :> {21} @@ <<<<"a">>, <<"x">>>> :> {41, 42} @@ <<<<"a">>, <<"y">>>> :> {51}))
        /\
        mcRan = (TRUE)
        /\
        keff = ({})
        /\
        kcfg = ([pats |-> {<<<<"a", "*">>>>}, recursive |-> TRUE, dry |-> FALSE, always |-> FALSE, kernel |-> FALSE, reap |-> FALSE, hooks |-> <<>>, plugin |-> "kill_by_memory_size_or_growth"])
        /\
        kw = ({[pref |-> -1, oomg |-> FALSE, pop |-> TRUE, key |-> 2, path |-> <<<<"a">>>>, gen |-> 1, elig |-> TRUE, pidsCur |-> 2], [pref |-> -1, oomg |-> FALSE, pop |-> TRUE, key |-> 2, path |-> <<<<"a", "b">>>>, gen |-> 1, elig |-> TRUE, pidsCur |-> 2], [pref |-> -1, oomg |-> FALSE, pop |-> TRUE, key |-> 2, path |-> <<<<"a">>, <<"x">>>>, gen |-> 1, elig |-> TRUE, pidsCur |-> 2], [pref |-> -1, oomg |-> FALSE, pop |-> TRUE, key |-> 2, path |-> <<<<"a">>, <<"y">>>>, gen |-> 1, elig |-> TRUE, pidsCur |-> 2]})
        /\
        kx = (<<>>)
        /\
        kctx = ([deadline |-> 1005000])
        /\
        ktick = (1)
        /\
        tried = (FALSE)
        /\
        stale = ({})
        /\
        mcTimeout = (2)
        /\
        mcInv = (0)
        /\
        mcOpens = (0)
        /\
        khist = (<<>>)
        /\
        know = (1003000)
        /\
        liveInv = ({})
        /\
        uuids = ({})
    )
----

_init ==
    /\ kret = _TETrace[1].kret
    /\ mcPids = _TETrace[1].mcPids
    /\ mcOpens = _TETrace[1].mcOpens
    /\ stack = _TETrace[1].stack
    /\ khist = _TETrace[1].khist
    /\ uuids = _TETrace[1].uuids
    /\ kcfg = _TETrace[1].kcfg
    /\ mcTimeout = _TETrace[1].mcTimeout
    /\ hk = _TETrace[1].hk
    /\ att = _TETrace[1].att
    /\ know = _TETrace[1].know
    /\ kw = _TETrace[1].kw
    /\ kx = _TETrace[1].kx
    /\ kstat = _TETrace[1].kstat
    /\ stale = _TETrace[1].stale
    /\ mcRan = _TETrace[1].mcRan
    /\ ktick = _TETrace[1].ktick
    /\ tried = _TETrace[1].tried
    /\ kph = _TETrace[1].kph
    /\ keff = _TETrace[1].keff
    /\ mcInv = _TETrace[1].mcInv
    /\ kctx = _TETrace[1].kctx
    /\ liveInv = _TETrace[1].liveInv
    /\ pgLast = _TETrace[1].pgLast
----

_next ==
    /\ \E i,j \in DOMAIN _TETrace:
        /\ \/ /\ j = i + 1
              /\ i = TLCGet("level")
        /\ kret  = _TETrace[i].kret
        /\ kret' = _TETrace[j].kret
        /\ mcPids  = _TETrace[i].mcPids
        /\ mcPids' = _TETrace[j].mcPids
        /\ mcOpens  = _TETrace[i].mcOpens
        /\ mcOpens' = _TETrace[j].mcOpens
        /\ stack  = _TETrace[i].stack
        /\ stack' = _TETrace[j].stack
        /\ khist  = _TETrace[i].khist
        /\ khist' = _TETrace[j].khist
        /\ uuids  = _TETrace[i].uuids
        /\ uuids' = _TETrace[j].uuids
        /\ kcfg  = _TETrace[i].kcfg
        /\ kcfg' = _TETrace[j].kcfg
        /\ mcTimeout  = _TETrace[i].mcTimeout
        /\ mcTimeout' = _TETrace[j].mcTimeout
        /\ hk  = _TETrace[i].hk
        /\ hk' = _TETrace[j].hk
        /\ att  = _TETrace[i].att
        /\ att' = _TETrace[j].att
        /\ know  = _TETrace[i].know
        /\ know' = _TETrace[j].know
        /\ kw  = _TETrace[i].kw
        /\ kw' = _TETrace[j].kw
        /\ kx  = _TETrace[i].kx
        /\ kx' = _TETrace[j].kx
        /\ kstat  = _TETrace[i].kstat
        /\ kstat' = _TETrace[j].kstat
        /\ stale  = _TETrace[i].stale
        /\ stale' = _TETrace[j].stale
        /\ mcRan  = _TETrace[i].mcRan
        /\ mcRan' = _TETrace[j].mcRan
        /\ ktick  = _TETrace[i].ktick
        /\ ktick' = _TETrace[j].ktick
        /\ tried  = _TETrace[i].tried
        /\ tried' = _TETrace[j].tried
        /\ kph  = _TETrace[i].kph
        /\ kph' = _TETrace[j].kph
        /\ keff  = _TETrace[i].keff
        /\ keff' = _TETrace[j].keff
        /\ mcInv  = _TETrace[i].mcInv
        /\ mcInv' = _TETrace[j].mcInv
        /\ kctx  = _TETrace[i].kctx
        /\ kctx' = _TETrace[j].kctx
        /\ liveInv  = _TETrace[i].liveInv
        /\ liveInv' = _TETrace[j].liveInv
        /\ pgLast  = _TETrace[i].pgLast
        /\ pgLast' = _TETrace[j].pgLast

\* Uncomment the ASSUME below to write the states of the error trace
\* to the given file in Json format. Note that you can pass any tuple
\* to `JsonSerialize`. For example, a sub-sequence of _TETrace.
    \* ASSUME
    \*     LET J == INSTANCE Json
    \*         IN J!JsonSerialize("MC_KillAction_TTrace_1790892752.json", _TETrace)

=============================================================================

 Note that you can extract this module `MC_KillAction_TEExpression`
  to a dedicated file to reuse `expression` (the module in the 
  dedicated `MC_KillAction_TEExpression.tla` file takes precedence 
  over the module `MC_KillAction_TEExpression` below).

---- MODULE MC_KillAction_TEExpression ----
EXTENDS Sequences, MC_KillAction, TLCExt, Toolbox, Naturals, TLC

expression == 
    [
        \* To hide variables of the `MC_KillAction` spec from the error trace,
        \* remove the variables below.  The trace will be written in the order
        \* of the fields of this record.
        kret |-> kret
        ,mcPids |-> mcPids
        ,mcOpens |-> mcOpens
        ,stack |-> stack
        ,khist |-> khist
        ,uuids |-> uuids
        ,kcfg |-> kcfg
        ,mcTimeout |-> mcTimeout
        ,hk |-> hk
        ,att |-> att
        ,know |-> know
        ,kw |-> kw
        ,kx |-> kx
        ,kstat |-> kstat
        ,stale |-> stale
        ,mcRan |-> mcRan
        ,ktick |-> ktick
        ,tried |-> tried
        ,kph |-> kph
        ,keff |-> keff
        ,mcInv |-> mcInv
        ,kctx |-> kctx
        ,liveInv |-> liveInv
        ,pgLast |-> pgLast
        
        \* Put additional constant-, state-, and action-level expressions here:
        \* ,_stateNumber |-> _TEPosition
        \* ,_kretUnchanged |-> kret = kret'
        
        \* Format the `kret` variable as Json value.
        \* ,_kretJson |->
        \*     LET J == INSTANCE Json
        \*     IN J!ToJson(kret)
        
        \* Lastly, you may build expressions over arbitrary sets of states by
        \* leveraging the _TETrace operator.  For example, this is how to
        \* count the number of times a spec variable changed up to the current
        \* state in the trace.
        \* ,_kretModCount |->
        \*     LET F[s \in DOMAIN _TETrace] ==
        \*         IF s = 1 THEN 0
        \*         ELSE IF _TETrace[s].kret # _TETrace[s-1].kret
        \*             THEN 1 + F[s-1] ELSE F[s-1]
        \*     IN F[_TEPosition - 1]
    ]

=============================================================================



Parsing and semantic processing can take forever if the trace below is long.
 In this case, it is advised to uncomment the module below to deserialize the
 trace from a generated binary file.

\*
\*---- MODULE MC_KillAction_TETrace ----
\*EXTENDS IOUtils, MC_KillAction, TLC
\*
\*trace == IODeserialize("MC_KillAction_TTrace_1790892752.bin", TRUE)
\*
\*=============================================================================
\*

---- MODULE MC_KillAction_TETrace ----
EXTENDS MC_KillAction, TLC

trace == 
    <<
    ([att |-> [dry |-> FALSE, victim |-> <<>>, uuid |-> 0, nr |-> 0, read |-> {}, stage |-> "", via |-> {}, opens |-> 0, reaping |-> FALSE],stack |-> <<>>,kph |-> "idle",hk |-> [path |-> <<>>, gen |-> 0, has |-> FALSE, stack |-> <<>>, inv |-> 0, via |-> {}],pgLast |-> -1,kret |-> "",kstat |-> 0,mcPids |-> <<>>,mcRan |-> TRUE,keff |-> {},kcfg |-> [pats |-> {}, recursive |-> FALSE, dry |-> FALSE, always |-> FALSE, kernel |-> FALSE, reap |-> FALSE, hooks |-> <<>>, plugin |-> ""],kw |-> {},kx |-> <<>>,kctx |-> [deadline |-> -1],ktick |-> 0,tried |-> FALSE,stale |-> {},mcTimeout |-> 0,mcInv |-> 0,mcOpens |-> 0,khist |-> <<>>,know |-> 0,liveInv |-> {},uuids |-> {}]),
    ([att |-> [dry |-> FALSE, victim |-> <<>>, uuid |-> 0, nr |-> 0, read |-> {}, stage |-> "", via |-> {}, opens |-> 0, reaping |-> FALSE],stack |-> <<>>,kph |-> "idle",hk |-> [path |-> <<>>, gen |-> 0, has |-> FALSE, stack |-> <<>>, inv |-> 0, via |-> {}],pgLast |-> -1,kret |-> "",kstat |-> 0,mcPids |-> (<<<<"a">>>> :> {11, 12} @@ <<<<"a", "b">>>> :> {21} @@ <<<<"a">>, <<"x">>>> :> {41, 42} @@ <<<<"a">>, <<"y">>>> :> {51}),mcRan |-> TRUE,keff |-> {},kcfg |-> [pats |-> {<<<<"a", "*">>>>}, recursive |-> TRUE, dry |-> FALSE, always |-> FALSE, kernel |-> FALSE, reap |-> FALSE, hooks |-> <<>>, plugin |-> "kill_by_memory_size_or_growth"],kw |-> {[pref |-> -1, oomg |-> FALSE, pop |-> TRUE, key |-> 2, path |-> <<<<"a">>>>, gen |-> 1, elig |-> TRUE, pidsCur |-> 2], [pref |-> -1, oomg |-> FALSE, pop |-> TRUE, key |-> 2, path |-> <<<<"a", "b">>>>, gen |-> 1, elig |-> TRUE, pidsCur |-> 2], [pref |-> -1, oomg |-> FALSE, pop |-> TRUE, key |-> 2, path |-> <<<<"a">>, <<"x">>>>, gen |-> 1, elig |-> TRUE, pidsCur |-> 2], [pref |-> -1, oomg |-> FALSE, pop |-> TRUE, key |-> 2, path |-> <<<<"a">>, <<"y">>>>, gen |-> 1, elig |-> TRUE, pidsCur |-> 2]},kx |-> <<>>,kctx |-> [deadline |-> -1],ktick |-> 0,tried |-> FALSE,stale |-> {},mcTimeout |-> 2,mcInv |-> 0,mcOpens |-> 0,khist |-> <<>>,know |-> 1000000,liveInv |-> {},uuids |-> {}]),
    ([att |-> [dry |-> FALSE, victim |-> <<>>, uuid |-> 0, nr |-> 0, read |-> {}, stage |-> "", via |-> {}, opens |-> 0, reaping |-> FALSE],stack |-> <<>>,kph |-> "idle",hk |-> [path |-> <<>>, gen |-> 0, has |-> FALSE, stack |-> <<>>, inv |-> 0, via |-> {}],pgLast |-> -1,kret |-> "",kstat |-> 0,mcPids |-> (<<<<"a">>>> :> {11, 12} @@ <<<<"a", "b">>>> :> {21} @@ <<<<"a">>, <<"x">>>> :> {41, 42} @@ <<<<"a">>, <<"y">>>> :> {51}),mcRan |-> FALSE,keff |-> {},kcfg |-> [pats |-> {<<<<"a", "*">>>>}, recursive |-> TRUE, dry |-> FALSE, always |-> FALSE, kernel |-> FALSE, reap |-> FALSE, hooks |-> <<>>, plugin |-> "kill_by_memory_size_or_growth"],kw |-> {[pref |-> -1, oomg |-> FALSE, pop |-> TRUE, key |-> 2, path |-> <<<<"a">>>>, gen |-> 1, elig |-> TRUE, pidsCur |-> 2], [pref |-> -1, oomg |-> FALSE, pop |-> TRUE, key |-> 2, path |-> <<<<"a", "b">>>>, gen |-> 1, elig |-> TRUE, pidsCur |-> 2], [pref |-> -1, oomg |-> FALSE, pop |-> TRUE, key |-> 2, path |-> <<<<"a">>, <<"x">>>>, gen |-> 1, elig |-> TRUE, pidsCur |-> 2], [pref |-> -1, oomg |-> FALSE, pop |-> TRUE, key |-> 2, path |-> <<<<"a">>, <<"y">>>>, gen |-> 1, elig |-> TRUE, pidsCur |-> 2]},kx |-> <<>>,kctx |-> [deadline |-> -1],ktick |-> 1,tried |-> FALSE,stale |-> {},mcTimeout |-> 2,mcInv |-> 0,mcOpens |-> 0,khist |-> <<>>,know |-> 1003000,liveInv |-> {},uuids |-> {}]),
    ([att |-> [dry |-> FALSE, victim |-> <<>>, uuid |-> 0, nr |-> 0, read |-> {}, stage |-> "", via |-> {}, opens |-> 0, reaping |-> FALSE],stack |-> <<[path |-> <<<<"a", "b">>>>, gen |-> 1, via |-> {<<<<"a">>>>, <<<<"a", "b">>>>}], [path |-> <<<<"a">>>>, gen |-> 1, via |-> {<<<<"a">>>>, <<<<"a", "b">>>>}]>>,kph |-> "dfs",hk |-> [path |-> <<>>, gen |-> 0, has |-> FALSE, stack |-> <<>>, inv |-> 0, via |-> {}],pgLast |-> -1,kret |-> "",kstat |-> 0,mcPids |-> (<<<<"a">>>> :> {11, 12} @@ <<<<"a", "b">>>> :> {21} @@ <<<<"a">>, <<"x">>>> :> {41, 42} @@ <<<<"a">>, <<"y">>>> :> {51}),mcRan |-> TRUE,keff |-> {},kcfg |-> [pats |-> {<<<<"a", "*">>>>}, recursive |-> TRUE, dry |-> FALSE, always |-> FALSE, kernel |-> FALSE, reap |-> FALSE, hooks |-> <<>>, plugin |-> "kill_by_memory_size_or_growth"],kw |-> {[pref |-> -1, oomg |-> FALSE, pop |-> TRUE, key |-> 2, path |-> <<<<"a">>>>, gen |-> 1, elig |-> TRUE, pidsCur |-> 2], [pref |-> -1, oomg |-> FALSE, pop |-> TRUE, key |-> 2, path |-> <<<<"a", "b">>>>, gen |-> 1, elig |-> TRUE, pidsCur |-> 2], [pref |-> -1, oomg |-> FALSE, pop |-> TRUE, key |-> 2, path |-> <<<<"a">>, <<"x">>>>, gen |-> 1, elig |-> TRUE, pidsCur |-> 2], [pref |-> -1, oomg |-> FALSE, pop |-> TRUE, key |-> 2, path |-> <<<<"a">>, <<"y">>>>, gen |-> 1, elig |-> TRUE, pidsCur |-> 2]},kx |-> <<>>,kctx |-> [deadline |-> 1005000],ktick |-> 1,tried |-> FALSE,stale |-> {},mcTimeout |-> 2,mcInv |-> 0,mcOpens |-> 0,khist |-> <<>>,know |-> 1003000,liveInv |-> {},uuids |-> {}])
    >>
----


=============================================================================

---- CONFIG MC_KillAction_TTrace_1790892752 ----
CONSTANTS
    MCShapes <- ShapeSmall
    MCPats <- PatsStar
    MCHooks <- HooksNone
    MCFlags <- FlagsRec
    MCAttrs <- AttrSet
    MCPlugins = { "kill_by_memory_size_or_growth" }
    MaxTicksK = 1
    TimeoutsK = { 2 }
    MaxOpens = 1
    EnvEdits = FALSE
    MidRun = TRUE

INVARIANT
    _inv

CHECK_DEADLOCK
    \* CHECK_DEADLOCK off because of PROPERTY or INVARIANT above.
    FALSE

INIT
    _init

NEXT
    _next

CONSTANT
    _TETrace <- _trace

ALIAS
    _expression
=============================================================================
\* Generated on Thu Oct 01 22:12:33 UTC 2026