SPECIFICATION MCSpec
CONSTANTS
  Names = {"a", ".h"}
  DotNames = {".h"}
  RemoveOnInvalid = TRUE
  Budget = 2
  Less <- MCLess
INVARIANTS MCConverged LockDiscipline NoDotActive StartupOrder
PROPERTY Converges
CHECK_DEADLOCK FALSE
