---- MODULE MC_Senpai_TTrace_1790828483 ----
EXTENDS Sequences, TLCExt, Toolbox, Naturals, TLC, MC_Senpai

_expression ==
    LET MC_Senpai_TEExpression == INSTANCE MC_Senpai_TEExpression
    IN MC_Senpai_TEExpression!expression
----

_trace ==
    LET MC_Senpai_TETrace == INSTANCE MC_Senpai_TETrace
    IN MC_Senpai_TETrace!trace
----

_inv ==
    ~(
        TLCGet("level") = Len(_TETrace)
        /\
        sysS = ([swaptotal |-> 10, swappiness |-> 60])
        /\
        nticks = (3)
        /\
        scfg = ([mode |-> "immediate", limitMin |-> 2, limitMax |-> 6, memTotal |-> 40, interval |-> 1, pressureUs |-> 10, maxProbe |-> [num |-> 1, den |-> 2], maxBackoff |-> [num |-> 1, den |-> 1], memPct |-> [num |-> 1, den |-> 1], ioPct |-> [num |-> 1, den |-> 1], swapThr |-> [num |-> 1, den |-> 2], swapValidation |-> TRUE, modulate |-> FALSE])
        /\
        pos = (0)
        /\
        wlog = (<<[path |-> "w1", file |-> "memory.high", v |-> 3, c |-> [path |-> "w1", id |-> 1, usage |-> 4, total |-> 0, fileCache |-> 4, anon |-> 0, effSwapFree |-> 3, effSwapMax |-> 10, swapUtilPpm |-> 100000, memMin |-> 0, memHigh |-> 30, memMax |-> 12, limitFile |-> 0, memSome10 |-> 0, memSome60 |-> 0, ioSome10 |-> 0, ioSome60 |-> 0, hasReclaim |-> FALSE, hasHighTmp |-> FALSE], kind |-> "reclaim", swp |-> ""]>>)
        /\
        step = ("idle")
        /\
        track = (<<>>)
        /\
        feat = ([reclaim |-> "no", hightmp |-> "no"])
        /\
        swp = ("")
        /\
        cgs = (<<[path |-> "w1", id |-> 1, usage |-> 4, total |-> 0, fileCache |-> 4, anon |-> 0, effSwapFree |-> 3, effSwapMax |-> 10, swapUtilPpm |-> 100000, memMin |-> 0, memHigh |-> 30, memMax |-> 12, limitFile |-> 0, memSome10 |-> 0, memSome60 |-> 0, ioSome10 |-> 0, ioSome60 |-> 0, hasReclaim |-> FALSE, hasHighTmp |-> FALSE]>>)
        /\
        pend = (<<>>)
    )
----

_init ==
    /\ scfg = _TETrace[1].scfg
    /\ cgs = _TETrace[1].cgs
    /\ sysS = _TETrace[1].sysS
    /\ pos = _TETrace[1].pos
    /\ pend = _TETrace[1].pend
    /\ wlog = _TETrace[1].wlog
    /\ feat = _TETrace[1].feat
    /\ swp = _TETrace[1].swp
    /\ step = _TETrace[1].step
    /\ track = _TETrace[1].track
    /\ nticks = _TETrace[1].nticks
----

_next ==
    /\ \E i,j \in DOMAIN _TETrace:
        /\ \/ /\ j = i + 1
              /\ i = TLCGet("level")
        /\ scfg  = _TETrace[i].scfg
        /\ scfg' = _TETrace[j].scfg
        /\ cgs  = _TETrace[i].cgs
        /\ cgs' = _TETrace[j].cgs
        /\ sysS  = _TETrace[i].sysS
        /\ sysS' = _TETrace[j].sysS
        /\ pos  = _TETrace[i].pos
        /\ pos' = _TETrace[j].pos
        /\ pend  = _TETrace[i].pend
        /\ pend' = _TETrace[j].pend
        /\ wlog  = _TETrace[i].wlog
        /\ wlog' = _TETrace[j].wlog
        /\ feat  = _TETrace[i].feat
        /\ feat' = _TETrace[j].feat
        /\ swp  = _TETrace[i].swp
        /\ swp' = _TETrace[j].swp
        /\ step  = _TETrace[i].step
        /\ step' = _TETrace[j].step
        /\ track  = _TETrace[i].track
        /\ track' = _TETrace[j].track
        /\ nticks  = _TETrace[i].nticks
        /\ nticks' = _TETrace[j].nticks

\* Uncomment the ASSUME below to write the states of the error trace
\* to the given file in Json format. Note that you can pass any tuple
\* to `JsonSerialize`. For example, a sub-sequence of _TETrace.
    \* ASSUME
    \*     LET J == INSTANCE Json
    \*         IN J!JsonSerialize("MC_Senpai_TTrace_1790828483.json", _TETrace)

=============================================================================

 Note that you can extract this module `MC_Senpai_TEExpression`
  to a dedicated file to reuse `expression` (the module in the 
  dedicated `MC_Senpai_TEExpression.tla` file takes precedence 
  over the module `MC_Senpai_TEExpression` below).

---- MODULE MC_Senpai_TEExpression ----
EXTENDS Sequences, TLCExt, Toolbox, Naturals, TLC, MC_Senpai

expression == 
    [
        \* To hide variables of the `MC_Senpai` spec from the error trace,
        \* remove the variables below.  The trace will be written in the order
        \* of the fields of this record.
        scfg |-> scfg
        ,cgs |-> cgs
        ,sysS |-> sysS
        ,pos |-> pos
        ,pend |-> pend
        ,wlog |-> wlog
        ,feat |-> feat
        ,swp |-> swp
        ,step |-> step
        ,track |-> track
        ,nticks |-> nticks
        
        \* Put additional constant-, state-, and action-level expressions here:
        \* ,_stateNumber |-> _TEPosition
        \* ,_scfgUnchanged |-> scfg = scfg'
        
        \* Format the `scfg` variable as Json value.
        \* ,_scfgJson |->
        \*     LET J == INSTANCE Json
        \*     IN J!ToJson(scfg)
        
        \* Lastly, you may build expressions over arbitrary sets of states by
        \* leveraging the _TETrace operator.  For example, this is how to
        \* count the number of times a spec variable changed up to the current
        \* state in the trace.
        \* ,_scfgModCount |->
        \*     LET F[s \in DOMAIN _TETrace] ==
        \*         IF s = 1 THEN 0
        \*         ELSE IF _TETrace[s].scfg # _TETrace[s-1].scfg
        \*             THEN 1 + F[s-1] ELSE F[s-1]
        \*     IN F[_TEPosition - 1]
    ]

=============================================================================



Parsing and semantic processing can take forever if the trace below is long.
 In this case, it is advised to uncomment the module below to deserialize the
 trace from a generated binary file.

\*
\*---- MODULE MC_Senpai_TETrace ----
\*EXTENDS IOUtils, TLC, MC_Senpai
\*
\*trace == IODeserialize("MC_Senpai_TTrace_1790828483.bin", TRUE)
\*
\*=============================================================================
\*

---- MODULE MC_Senpai_TETrace ----
EXTENDS TLC, MC_Senpai

trace == 
    <<
    ([sysS |-> [swaptotal |-> 0, swappiness |-> 0],nticks |-> 0,scfg |-> [mode |-> "none"],pos |-> 0,wlog |-> <<>>,step |-> "idle",track |-> <<>>,feat |-> [reclaim |-> "unknown", hightmp |-> "unknown"],swp |-> "",cgs |-> <<>>,pend |-> <<>>]),
    ([sysS |-> [swaptotal |-> 0, swappiness |-> 0],nticks |-> 0,scfg |-> [mode |-> "immediate", limitMin |-> 2, limitMax |-> 6, memTotal |-> 40, interval |-> 1, pressureUs |-> 10, maxProbe |-> [num |-> 1, den |-> 2], maxBackoff |-> [num |-> 1, den |-> 1], memPct |-> [num |-> 1, den |-> 1], ioPct |-> [num |-> 1, den |-> 1], swapThr |-> [num |-> 1, den |-> 2], swapValidation |-> TRUE, modulate |-> FALSE],pos |-> 0,wlog |-> <<>>,step |-> "idle",track |-> <<>>,feat |-> [reclaim |-> "unknown", hightmp |-> "unknown"],swp |-> "",cgs |-> <<>>,pend |-> <<>>]),
    ([sysS |-> [swaptotal |-> 10, swappiness |-> 60],nticks |-> 1,scfg |-> [mode |-> "immediate", limitMin |-> 2, limitMax |-> 6, memTotal |-> 40, interval |-> 1, pressureUs |-> 10, maxProbe |-> [num |-> 1, den |-> 2], maxBackoff |-> [num |-> 1, den |-> 1], memPct |-> [num |-> 1, den |-> 1], ioPct |-> [num |-> 1, den |-> 1], swapThr |-> [num |-> 1, den |-> 2], swapValidation |-> TRUE, modulate |-> FALSE],pos |-> 1,wlog |-> <<>>,step |-> "plan",track |-> <<>>,feat |-> [reclaim |-> "unknown", hightmp |-> "unknown"],swp |-> "",cgs |-> <<[path |-> "w1", id |-> 1, usage |-> 4, total |-> 0, fileCache |-> 4, anon |-> 0, effSwapFree |-> 3, effSwapMax |-> 10, swapUtilPpm |-> 100000, memMin |-> 0, memHigh |-> 30, memMax |-> 12, limitFile |-> 2000000000, memSome10 |-> 0, memSome60 |-> 0, ioSome10 |-> 0, ioSome60 |-> 0, hasReclaim |-> FALSE, hasHighTmp |-> FALSE]>>,pend |-> <<>>]),
    ([sysS |-> [swaptotal |-> 10, swappiness |-> 60],nticks |-> 1,scfg |-> [mode |-> "immediate", limitMin |-> 2, limitMax |-> 6, memTotal |-> 40, interval |-> 1, pressureUs |-> 10, maxProbe |-> [num |-> 1, den |-> 2], maxBackoff |-> [num |-> 1, den |-> 1], memPct |-> [num |-> 1, den |-> 1], ioPct |-> [num |-> 1, den |-> 1], swapThr |-> [num |-> 1, den |-> 2], swapValidation |-> TRUE, modulate |-> FALSE],pos |-> 1,wlog |-> <<>>,step |-> "do",track |-> <<>>,feat |-> [reclaim |-> "no", hightmp |-> "no"],swp |-> "",cgs |-> <<[path |-> "w1", id |-> 1, usage |-> 4, total |-> 0, fileCache |-> 4, anon |-> 0, effSwapFree |-> 3, effSwapMax |-> 10, swapUtilPpm |-> 100000, memMin |-> 0, memHigh |-> 30, memMax |-> 12, limitFile |-> 2000000000, memSome10 |-> 0, memSome60 |-> 0, ioSome10 |-> 0, ioSome60 |-> 0, hasReclaim |-> FALSE, hasHighTmp |-> FALSE]>>,pend |-> <<"trackNoWrite">>]),
    ([sysS |-> [swaptotal |-> 10, swappiness |-> 60],nticks |-> 1,scfg |-> [mode |-> "immediate", limitMin |-> 2, limitMax |-> 6, memTotal |-> 40, interval |-> 1, pressureUs |-> 10, maxProbe |-> [num |-> 1, den |-> 2], maxBackoff |-> [num |-> 1, den |-> 1], memPct |-> [num |-> 1, den |-> 1], ioPct |-> [num |-> 1, den |-> 1], swapThr |-> [num |-> 1, den |-> 2], swapValidation |-> TRUE, modulate |-> FALSE],pos |-> 0,wlog |-> <<>>,step |-> "idle",track |-> <<[limit |-> 0, lastTotal |-> 0, cumul |-> 0, ticks |-> 1]>>,feat |-> [reclaim |-> "no", hightmp |-> "no"],swp |-> "",cgs |-> <<[path |-> "w1", id |-> 1, usage |-> 4, total |-> 0, fileCache |-> 4, anon |-> 0, effSwapFree |-> 3, effSwapMax |-> 10, swapUtilPpm |-> 100000, memMin |-> 0, memHigh |-> 30, memMax |-> 12, limitFile |-> 2000000000, memSome10 |-> 0, memSome60 |-> 0, ioSome10 |-> 0, ioSome60 |-> 0, hasReclaim |-> FALSE, hasHighTmp |-> FALSE]>>,pend |-> <<>>]),
    ([sysS |-> [swaptotal |-> 10, swappiness |-> 60],nticks |-> 2,scfg |-> [mode |-> "immediate", limitMin |-> 2, limitMax |-> 6, memTotal |-> 40, interval |-> 1, pressureUs |-> 10, maxProbe |-> [num |-> 1, den |-> 2], maxBackoff |-> [num |-> 1, den |-> 1], memPct |-> [num |-> 1, den |-> 1], ioPct |-> [num |-> 1, den |-> 1], swapThr |-> [num |-> 1, den |-> 2], swapValidation |-> TRUE, modulate |-> FALSE],pos |-> 1,wlog |-> <<>>,step |-> "plan",track |-> <<[limit |-> 0, lastTotal |-> 0, cumul |-> 0, ticks |-> 1]>>,feat |-> [reclaim |-> "no", hightmp |-> "no"],swp |-> "",cgs |-> <<[path |-> "w1", id |-> 1, usage |-> 4, total |-> 0, fileCache |-> 0, anon |-> 4, effSwapFree |-> 3, effSwapMax |-> 10, swapUtilPpm |-> 100000, memMin |-> 0, memHigh |-> 30, memMax |-> 12, limitFile |-> 0, memSome10 |-> 0, memSome60 |-> 0, ioSome10 |-> 0, ioSome60 |-> 0, hasReclaim |-> FALSE, hasHighTmp |-> FALSE]>>,pend |-> <<>>]),
    ([sysS |-> [swaptotal |-> 10, swappiness |-> 60],nticks |-> 2,scfg |-> [mode |-> "immediate", limitMin |-> 2, limitMax |-> 6, memTotal |-> 40, interval |-> 1, pressureUs |-> 10, maxProbe |-> [num |-> 1, den |-> 2], maxBackoff |-> [num |-> 1, den |-> 1], memPct |-> [num |-> 1, den |-> 1], ioPct |-> [num |-> 1, den |-> 1], swapThr |-> [num |-> 1, den |-> 2], swapValidation |-> TRUE, modulate |-> FALSE],pos |-> 1,wlog |-> <<>>,step |-> "do",track |-> <<[limit |-> 0, lastTotal |-> 0, cumul |-> 0, ticks |-> 1]>>,feat |-> [reclaim |-> "no", hightmp |-> "no"],swp |-> "",cgs |-> <<[path |-> "w1", id |-> 1, usage |-> 4, total |-> 0, fileCache |-> 0, anon |-> 4, effSwapFree |-> 3, effSwapMax |-> 10, swapUtilPpm |-> 100000, memMin |-> 0, memHigh |-> 30, memMax |-> 12, limitFile |-> 0, memSome10 |-> 0, memSome60 |-> 0, ioSome10 |-> 0, ioSome60 |-> 0, hasReclaim |-> FALSE, hasHighTmp |-> FALSE]>>,pend |-> <<>>]),
    ([sysS |-> [swaptotal |-> 10, swappiness |-> 60],nticks |-> 2,scfg |-> [mode |-> "immediate", limitMin |-> 2, limitMax |-> 6, memTotal |-> 40, interval |-> 1, pressureUs |-> 10, maxProbe |-> [num |-> 1, den |-> 2], maxBackoff |-> [num |-> 1, den |-> 1], memPct |-> [num |-> 1, den |-> 1], ioPct |-> [num |-> 1, den |-> 1], swapThr |-> [num |-> 1, den |-> 2], swapValidation |-> TRUE, modulate |-> FALSE],pos |-> 0,wlog |-> <<>>,step |-> "idle",track |-> <<[limit |-> 0, lastTotal |-> 0, cumul |-> 0, ticks |-> 0]>>,feat |-> [reclaim |-> "no", hightmp |-> "no"],swp |-> "",cgs |-> <<[path |-> "w1", id |-> 1, usage |-> 4, total |-> 0, fileCache |-> 0, anon |-> 4, effSwapFree |-> 3, effSwapMax |-> 10, swapUtilPpm |-> 100000, memMin |-> 0, memHigh |-> 30, memMax |-> 12, limitFile |-> 0, memSome10 |-> 0, memSome60 |-> 0, ioSome10 |-> 0, ioSome60 |-> 0, hasReclaim |-> FALSE, hasHighTmp |-> FALSE]>>,pend |-> <<>>]),
    ([sysS |-> [swaptotal |-> 10, swappiness |-> 60],nticks |-> 3,scfg |-> [mode |-> "immediate", limitMin |-> 2, limitMax |-> 6, memTotal |-> 40, interval |-> 1, pressureUs |-> 10, maxProbe |-> [num |-> 1, den |-> 2], maxBackoff |-> [num |-> 1, den |-> 1], memPct |-> [num |-> 1, den |-> 1], ioPct |-> [num |-> 1, den |-> 1], swapThr |-> [num |-> 1, den |-> 2], swapValidation |-> TRUE, modulate |-> FALSE],pos |-> 1,wlog |-> <<>>,step |-> "plan",track |-> <<[limit |-> 0, lastTotal |-> 0, cumul |-> 0, ticks |-> 0]>>,feat |-> [reclaim |-> "no", hightmp |-> "no"],swp |-> "",cgs |-> <<[path |-> "w1", id |-> 1, usage |-> 4, total |-> 0, fileCache |-> 4, anon |-> 0, effSwapFree |-> 3, effSwapMax |-> 10, swapUtilPpm |-> 100000, memMin |-> 0, memHigh |-> 30, memMax |-> 12, limitFile |-> 0, memSome10 |-> 0, memSome60 |-> 0, ioSome10 |-> 0, ioSome60 |-> 0, hasReclaim |-> FALSE, hasHighTmp |-> FALSE]>>,pend |-> <<>>]),
    ([sysS |-> [swaptotal |-> 10, swappiness |-> 60],nticks |-> 3,scfg |-> [mode |-> "immediate", limitMin |-> 2, limitMax |-> 6, memTotal |-> 40, interval |-> 1, pressureUs |-> 10, maxProbe |-> [num |-> 1, den |-> 2], maxBackoff |-> [num |-> 1, den |-> 1], memPct |-> [num |-> 1, den |-> 1], ioPct |-> [num |-> 1, den |-> 1], swapThr |-> [num |-> 1, den |-> 2], swapValidation |-> TRUE, modulate |-> FALSE],pos |-> 1,wlog |-> <<>>,step |-> "do",track |-> <<[limit |-> 0, lastTotal |-> 0, cumul |-> 0, ticks |-> 0]>>,feat |-> [reclaim |-> "no", hightmp |-> "no"],swp |-> "",cgs |-> <<[path |-> "w1", id |-> 1, usage |-> 4, total |-> 0, fileCache |-> 4, anon |-> 0, effSwapFree |-> 3, effSwapMax |-> 10, swapUtilPpm |-> 100000, memMin |-> 0, memHigh |-> 30, memMax |-> 12, limitFile |-> 0, memSome10 |-> 0, memSome60 |-> 0, ioSome10 |-> 0, ioSome60 |-> 0, hasReclaim |-> FALSE, hasHighTmp |-> FALSE]>>,pend |-> <<"reclaim", 1>>]),
    ([sysS |-> [swaptotal |-> 10, swappiness |-> 60],nticks |-> 3,scfg |-> [mode |-> "immediate", limitMin |-> 2, limitMax |-> 6, memTotal |-> 40, interval |-> 1, pressureUs |-> 10, maxProbe |-> [num |-> 1, den |-> 2], maxBackoff |-> [num |-> 1, den |-> 1], memPct |-> [num |-> 1, den |-> 1], ioPct |-> [num |-> 1, den |-> 1], swapThr |-> [num |-> 1, den |-> 2], swapValidation |-> TRUE, modulate |-> FALSE],pos |-> 1,wlog |-> <<[path |-> "w1", file |-> "memory.high", v |-> 3, c |-> [path |-> "w1", id |-> 1, usage |-> 4, total |-> 0, fileCache |-> 4, anon |-> 0, effSwapFree |-> 3, effSwapMax |-> 10, swapUtilPpm |-> 100000, memMin |-> 0, memHigh |-> 30, memMax |-> 12, limitFile |-> 0, memSome10 |-> 0, memSome60 |-> 0, ioSome10 |-> 0, ioSome60 |-> 0, hasReclaim |-> FALSE, hasHighTmp |-> FALSE], kind |-> "reclaim", swp |-> ""]>>,step |-> "do",track |-> <<[limit |-> 0, lastTotal |-> 0, cumul |-> 0, ticks |-> 0]>>,feat |-> [reclaim |-> "no", hightmp |-> "no"],swp |-> "",cgs |-> <<[path |-> "w1", id |-> 1, usage |-> 4, total |-> 0, fileCache |-> 4, anon |-> 0, effSwapFree |-> 3, effSwapMax |-> 10, swapUtilPpm |-> 100000, memMin |-> 0, memHigh |-> 30, memMax |-> 12, limitFile |-> 0, memSome10 |-> 0, memSome60 |-> 0, ioSome10 |-> 0, ioSome60 |-> 0, hasReclaim |-> FALSE, hasHighTmp |-> FALSE]>>,pend |-> <<"resetmax">>]),
    ([sysS |-> [swaptotal |-> 10, swappiness |-> 60],nticks |-> 3,scfg |-> [mode |-> "immediate", limitMin |-> 2, limitMax |-> 6, memTotal |-> 40, interval |-> 1, pressureUs |-> 10, maxProbe |-> [num |-> 1, den |-> 2], maxBackoff |-> [num |-> 1, den |-> 1], memPct |-> [num |-> 1, den |-> 1], ioPct |-> [num |-> 1, den |-> 1], swapThr |-> [num |-> 1, den |-> 2], swapValidation |-> TRUE, modulate |-> FALSE],pos |-> 0,wlog |-> <<[path |-> "w1", file |-> "memory.high", v |-> 3, c |-> [path |-> "w1", id |-> 1, usage |-> 4, total |-> 0, fileCache |-> 4, anon |-> 0, effSwapFree |-> 3, effSwapMax |-> 10, swapUtilPpm |-> 100000, memMin |-> 0, memHigh |-> 30, memMax |-> 12, limitFile |-> 0, memSome10 |-> 0, memSome60 |-> 0, ioSome10 |-> 0, ioSome60 |-> 0, hasReclaim |-> FALSE, hasHighTmp |-> FALSE], kind |-> "reclaim", swp |-> ""]>>,step |-> "idle",track |-> <<>>,feat |-> [reclaim |-> "no", hightmp |-> "no"],swp |-> "",cgs |-> <<[path |-> "w1", id |-> 1, usage |-> 4, total |-> 0, fileCache |-> 4, anon |-> 0, effSwapFree |-> 3, effSwapMax |-> 10, swapUtilPpm |-> 100000, memMin |-> 0, memHigh |-> 30, memMax |-> 12, limitFile |-> 0, memSome10 |-> 0, memSome60 |-> 0, ioSome10 |-> 0, ioSome60 |-> 0, hasReclaim |-> FALSE, hasHighTmp |-> FALSE]>>,pend |-> <<>>])
    >>
----


=============================================================================

---- CONFIG MC_Senpai_TTrace_1790828483 ----
CONSTANTS
    Modes = { "normal" , "immediate" }
    MaxTicksP = 3

INVARIANT
    _inv

CHECK_DEADLOCK
    \* CHECK_DEADLOCK off because of PROPERTY or INVARIANT above.
    FALSE

INIT
    _init

NEXT
    _next

CONSTANT
    _TETrace <- _trace

ALIAS
    _expression
=============================================================================
\* Generated on Thu Oct 01 04:21:29 UTC 2026