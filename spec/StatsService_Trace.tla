------------------------- MODULE StatsService_Trace -------------------------
(* Stage B for C19: call / return pairs of API operations and socket requests, handler accounting hook *)
(* points and what raw clients saw (statsvc_driver.cpp) must be explainable by StatsService.tla: the   *)
(* linearisation point of every operation is an internal step that TLC searches for.                   *)
EXTENDS StatsService, Json, IOUtils
VARIABLE l
tvars == <<ssv, l>>
TraceLog == ndJsonDeserialize(IOEnv.TRACE)
N == Len(TraceLog)
Ev == TraceLog[l]
IsEv(name) == l <= N /\ Ev.e = name
Consume == l' = l + 1
\* a map logged as [[key, value], ...]
MapOf(pairs) == [k \in {pairs[i][1] : i \in DOMAIN pairs} |-> pairs[CHOOSE i \in DOMAIN pairs : pairs[i][1] = k][2]]
TraceInit == VInit /\ l = 1 /\ TLCSet(1, 0)
TReset == /\ IsEv("SReset") /\ Consume
          /\ smap' = <<>> /\ pendOps' = <<>> /\ conns' = <<>> /\ handlers' = 0 /\ stopping' = TRUE /\ gone' = TRUE
TNew == IsEv("New") /\ Consume /\ SvcNew
TCall == IsEv("Call") /\ Consume /\ OpCall(Ev.id, Ev.op, Ev.key, Ev.val)
TRet == IsEv("Ret") /\ Consume /\ OpRet(Ev.id, MapOf(Ev.res))
TCancel == IsEv("Cancel") /\ Consume /\ OpCancel(Ev.id)
TLin == (\E id \in DOMAIN pendOps : Lin(id)) /\ UNCHANGED l
THStart == IsEv("HStart") /\ Consume /\ HStart
THEnd == IsEv("HEnd") /\ Consume /\ HEnd
TSaw == IsEv("ClientSaw") /\ Consume /\ ClientSaw(Ev.first, Ev.nReplies, Ev.wellFormed, Ev.err, Ev.mustReply, Ev.closed)
TDtorB == IsEv("DtorBegin") /\ Consume /\ DtorBegin
TDtorE == IsEv("DtorEnd") /\ Consume /\ DtorEnd
\* initialisation with an unusable socket path must fail cleanly (exception), never corrupt memory
TInitResult == IsEv("InitResult") /\ Consume /\ (Ev.usable = Ev.ok) /\ UNCHANGED ssv
\* the execution ends with every operation returned and the service destroyed (DtorEnd seen)
TEnd == IsEv("SEnd") /\ Consume /\ pendOps = <<>> /\ gone /\ UNCHANGED ssv
TraceNext == TReset \/ TNew \/ TCancel \/ TCall \/ TRet \/ TLin \/ THStart \/ THEnd \/ TSaw \/ TDtorB \/ TDtorE \/ TInitResult \/ TEnd
TraceSpec == TraceInit /\ [][TraceNext]_tvars
TraceProgress == TLCSet(1, IF TLCGet(1) < l THEN l ELSE TLCGet(1))
TraceAccepted == /\ PrintT(<<"MAXL", TLCGet(1), "OF", N>>) /\ TLCGet(1) = N + 1
=============================================================================
