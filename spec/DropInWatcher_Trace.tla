------------------------- MODULE DropInWatcher_Trace -------------------------
(* Stage B for C14: the events recorded by dropin_driver.cpp - file operations as call / return pairs whose  *)
(* kernel steps are internal, the watcher's hook points (events taken, hand-offs), the main loop's ticks,    *)
(* swaps, applications and the drop-ins the engine actually ran - must be a behaviour of DropInWatcher.tla   *)
(* (RemoveOnInvalid = TRUE: the code as repaired).  Kernel steps, wake-ups, reads of the inotify fd, file    *)
(* reads and lock releases are not logged: TLC searches for them.  At "Settle" the file system has been      *)
(* quiet, the watcher idle and three more ticks done: the engine must run exactly the valid non-dot files.   *)
EXTENDS DropInWatcher, Json, IOUtils
VARIABLES l,      \* next trace line
          kpend,  \* kernel steps of the file operation in progress
          kok     \* did the operation in progress take effect
tvars == <<dvars, l, kpend, kok>>
TraceLog == ndJsonDeserialize(IOEnv.TRACE)
N == Len(TraceLog)
Ev == TraceLog[l]
IsEv(name) == l <= N /\ Ev.e = name
Consume == l' = l + 1
NameOrder == <<".hid.json", "a.json", "b.json", "c">>
Idx(x) == CHOOSE i \in DOMAIN NameOrder : NameOrder[i] = x
TrLess(x, y) == Idx(x) < Idx(y)
Rec(k, v) == [k |-> k, v |-> v]

TraceInit == /\ DInit([n \in Names |-> None], 0) /\ l = 1 /\ kpend = <<>> /\ kok = TRUE /\ TLCSet(1, 0)
\* a new execution: nothing exists yet; mpc "pre" until the service is constructed
TReset == /\ IsEv("SReset") /\ Consume
          /\ dirGen' = (IF Ev.dir THEN 1 ELSE 0) /\ dirSeq' = (IF Ev.dir THEN 1 ELSE 0) /\ files' = [n \in Names |-> None]
          /\ watchGen' = 0 /\ inq' = <<>> /\ dirDeleted' = TRUE /\ started' = FALSE /\ stopping' = FALSE
          /\ wpc' = "wait" /\ wbuf' = <<>> /\ wev' = NoEv /\ wcontent' = None /\ wterm' = FALSE /\ evLock' = "none" /\ queue' = <<>>
          /\ active' = [n \in Names |-> None] /\ mpc' = "pre" /\ mbatch' = <<>> /\ mscan' = <<>> /\ mcontent' = None
          /\ kpend' = <<>> /\ kok' = TRUE
Keep(vs) == UNCHANGED vs
TInitFile == /\ IsEv("InitFile") /\ Consume /\ mpc = "pre" /\ files' = [files EXCEPT ![Ev.n] = Rec(Ev.k, Ev.v)]
             /\ UNCHANGED <<dirGen, dirSeq, watchGen, inq, dirDeleted, started, stopping, wvars, evLock, queue, active, mvars, kpend, kok>>
TCtorBegin == /\ IsEv("CtorBegin") /\ Consume /\ mpc = "pre" /\ mpc' = "prep"
              /\ UNCHANGED <<fsvars, watchGen, inq, dirDeleted, started, stopping, wvars, evLock, queue, active, mbatch, mscan, mcontent, kpend, kok>>

\* ---- file operations: the call fixes the kernel steps, which then happen silently before the return
StepsOf(e) ==
  CASE e.op = "put" -> <<[t |-> "put", n |-> e.n, c |-> Rec(e.k, e.v)]>>
    [] e.op = "trunc" -> <<[t |-> "trunc", n |-> e.n]>>
    [] e.op = "write" -> <<[t |-> "trunc", n |-> e.n], [t |-> "write", n |-> e.n, c |-> Rec(e.k, e.v)]>>
    [] e.op = "append" -> <<[t |-> "write", n |-> e.n, c |-> Rec(e.k, e.v)]>>
    [] e.op = "delete" -> <<[t |-> "del", n |-> e.n]>>
    [] e.op = "rename" -> <<[t |-> "rename", n |-> e.n, n2 |-> e.n2]>>
    [] e.op = "rmdir" -> <<[t |-> "rmdir"]>>
    [] e.op = "mkdir" -> <<[t |-> "mkdir"]>>
TFsCall == /\ IsEv("FsCall") /\ Consume /\ kpend = <<>> /\ kpend' = StepsOf(Ev) /\ kok' = TRUE /\ UNCHANGED dvars
TFsRet == /\ IsEv("FsRet") /\ Consume /\ kpend = <<>> /\ ("done" \in DOMAIN Ev => Ev.done = kok) /\ UNCHANGED <<dvars, kpend, kok>>
\* one kernel step (internal); a step whose precondition does not hold fails without effect
KStep ==
  /\ kpend # <<>> /\ kpend' = Tail(kpend) /\ UNCHANGED l
  /\ LET s == Head(kpend) IN
     CASE s.t = "put" -> IF dirGen # 0 THEN KPut(s.n, s.c) /\ UNCHANGED kok ELSE kok' = FALSE /\ UNCHANGED dvars
       [] s.t = "trunc" -> IF dirGen # 0 THEN KTrunc(s.n) /\ UNCHANGED kok ELSE kok' = FALSE /\ UNCHANGED dvars
       [] s.t = "write" -> IF kok /\ dirGen # 0 /\ files[s.n] # None THEN KWrite(s.n, s.c) /\ UNCHANGED kok ELSE kok' = FALSE /\ UNCHANGED dvars
       [] s.t = "del" -> IF dirGen # 0 /\ files[s.n] # None THEN KDel(s.n) /\ UNCHANGED kok ELSE kok' = FALSE /\ UNCHANGED dvars
       [] s.t = "rename" -> IF dirGen # 0 /\ files[s.n] # None THEN KRename(s.n, s.n2) /\ UNCHANGED kok ELSE kok' = FALSE /\ UNCHANGED dvars
       [] s.t = "rmdir" -> IF dirGen # 0 /\ (\A n \in Names : files[n] = None) THEN KRmDir /\ UNCHANGED kok ELSE kok' = FALSE /\ UNCHANGED dvars
       [] s.t = "mkdir" -> IF dirGen = 0 THEN KMkDir /\ UNCHANGED kok ELSE kok' = FALSE /\ UNCHANGED dvars

\* ---- watcher
Silent(A) == A /\ UNCHANGED <<l, kpend, kok>>
Logged(name, A) == IsEv(name) /\ Consume /\ A /\ UNCHANGED <<kpend, kok>>
TWLocked == Logged("WLocked", WLock)
TWEvent == \/ IsEv("WEvent") /\ Ev.c # "other" /\ Consume /\ WTake /\ wev'.c = Ev.c /\ wev'.n = Ev.n /\ UNCHANGED <<kpend, kok>>
           \/ IsEv("WEvent") /\ Ev.c = "other" /\ Consume /\ UNCHANGED <<dvars, kpend, kok>>
TSchedW == /\ IsEv("Sched") /\ Ev.thr = "w" /\ Consume /\ UNCHANGED <<kpend, kok>>
           /\ \/ WSched /\ wev.n = Ev.tag /\ SchedFor(wev.n, wcontent) = <<[tag |-> Ev.tag, unit |-> IF Ev.add THEN Rec("valid", Ev.v) ELSE None]>>
              \/ WSchedRm /\ wev.n = Ev.tag /\ ~Ev.add
\* a file whose content schedules nothing (only with RemoveOnInvalid = FALSE) is passed silently
TSchedWNone == Silent(WSched) /\ SchedFor(wev.n, wcontent) = <<>>
\* deregistration hook: the watcher's own after a "self" event, or the destructor's after the join
TDereg == \/ Logged("Dereg", WDereg)
          \/ /\ IsEv("Dereg") /\ Consume /\ mpc = "joining" /\ wpc = "exited" /\ ~dirDeleted /\ watchGen' = 0 /\ inq' = <<>>
             /\ UNCHANGED <<fsvars, dirDeleted, started, stopping, wvars, evLock, queue, active, mvars, kpend, kok>>

\* ---- main
TTick == Logged("Tick", MTick)
\* the hook point reports the registration after the fact: the kernel-side step (MReg / MRegFail) is internal
TReg == \/ IsEv("Reg") /\ Consume /\ Ev.ok /\ MRegDone /\ UNCHANGED <<kpend, kok>>
        \/ IsEv("Reg") /\ Consume /\ ~Ev.ok /\ MRegGiveUp /\ UNCHANGED <<kpend, kok>>
TSchedM == /\ IsEv("Sched") /\ Ev.thr = "m" /\ Consume /\ UNCHANGED <<kpend, kok>>
           /\ MScanSched /\ Head(mscan) = Ev.tag
           /\ SchedFor(Head(mscan), mcontent) = <<[tag |-> Ev.tag, unit |-> IF Ev.add THEN Rec("valid", Ev.v) ELSE None]>>
TSchedMNone == Silent(MScanSched) /\ SchedFor(Head(mscan), mcontent) = <<>>
TScanDone == Logged("ScanDone", MScanDone)
TCtorDone == Logged("CtorDone", MCtorDone)
TSwap == Logged("Swap", MSwap) /\ Len(queue) = Ev.n
TApply == /\ Logged("Apply", MApply) /\ Head(mbatch).tag = Ev.tag
          /\ CASE Ev.res = 0 -> Head(mbatch).unit = None
               [] Ev.res = 1 -> Head(mbatch).unit # None
               [] OTHER -> FALSE          \* the engine refused a compiled drop-in: not a behaviour of the specification
\* the engine ran exactly the drop-ins the specification holds active
\* (observed through the ids of the scripted detectors, which carry the content version; versions are unique per execution)
ActiveSet == {active[n].v : n \in {x \in Names : active[x] # None}}
TActive == Logged("Active", MRun) /\ {Ev.ids[i][2] : i \in DOMAIN Ev.ids} = ActiveSet
TQuiet == IsEv("Quiet") /\ Consume /\ kpend = <<>> /\ UNCHANGED <<dvars, kpend, kok>>
\* quiescence reached: the directory is as the specification has it, and the engine converged to it
TSettle == /\ IsEv("Settle") /\ Consume /\ UNCHANGED <<dvars, kpend, kok>>
           /\ Ev.dir = (dirGen # 0)
           /\ {Ev.present[i] : i \in DOMAIN Ev.present} = {n \in Names : dirGen # 0 /\ files[n] # None}
           /\ mpc = "idle" /\ active = Expected
TStop == Logged("Stop", MStop)
\* the destroyed service leaves no inotify instance behind
TGone == Logged("SvcGone", MJoined) /\ Ev.inotifyFds = 0

TraceNext ==
  \/ TReset \/ TInitFile \/ TCtorBegin \/ TFsCall \/ TFsRet \/ KStep
  \/ TWLocked \/ TWEvent \/ TSchedW \/ TSchedWNone \/ TDereg
  \/ Silent(WWake) \/ Silent(WRead) \/ Silent(WReadFile) \/ Silent(WUnlock) \/ Silent(WSetDeleted)
  \/ TTick \/ TReg \/ TSchedM \/ TSchedMNone \/ TScanDone \/ TCtorDone \/ TSwap \/ TApply \/ TActive
  \/ Silent(MCheck) \/ Silent(MPrep) \/ Silent(MReg) \/ Silent(MRegFail) \/ Silent(MList) \/ Silent(MScanRead)
  \/ TQuiet \/ TSettle \/ TStop \/ TGone \/ Silent(WExit)
TraceSpec == TraceInit /\ [][TraceNext]_tvars
TraceProgress == TLCSet(1, IF TLCGet(1) < l THEN l ELSE TLCGet(1))
TraceAccepted == /\ PrintT(<<"MAXL", TLCGet(1), "OF", N>>) /\ TLCGet(1) = N + 1
=============================================================================
