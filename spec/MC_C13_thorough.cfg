SPECIFICATION MCSpec
CONSTANTS
  MCConfigs <- CfgDrop
  MCUnits <- UnitsDrop
  MCTags = {"t1", "t2", "t3"}
  MaxTicks = 2
  MaxOps = 3
  DTs = {1000}
  Advs = {0}
  DetRets = {"CONTINUE"}
  ActRets = {"CONTINUE", "STOP"}
  ProbePaths = {}
INVARIANTS TypeOK AllRunOnce ChainRule NoActionInPause PauseIsDeclared FreshUuids NoUseAfterDestroy DropinOrderOk AddedStatOk HookOrderOk
CHECK_DEADLOCK FALSE
