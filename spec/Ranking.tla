------------------------------- MODULE Ranking -------------------------------
(***************************************************************************)
(* C09: the first choice of each kill plugin among equally preferred       *)
(* siblings follows its documented ranking policy.                         *)
(*                                                                         *)
(* No state: operators over a sibling set S of records                     *)
(*   [name, pref, usage, prot, avgn, avgd, swap, p10, p60, io, pg]         *)
(* in abstract units (sizes are scaled by the replay driver; every policy  *)
(* is homogeneous in sizes, so the choice is scale invariant).  Rationals  *)
(* are compared by cross-multiplication; ArgMax returns the SET of         *)
(* maximisers, so ties stay free.                                          *)
(*   avgn/avgd : moving-average usage of the previous tick as a fraction   *)
(*          (growth = usage over the new average (3*avg + usage)/4)        *)
(*   io, pg : per-tick increase of io cost / pgscan                        *)
(***************************************************************************)
EXTENDS Integers, Sequences, FiniteSets, TLC

Eff(c) == c.usage - c.prot
SumUsage(S) == LET RECURSIVE Sm(_) Sm(T) == IF T = {} THEN 0 ELSE LET x == CHOOSE y \in T : TRUE IN x.usage + Sm(T \ {x}) IN Sm(S)
ArgMaxBy(S, key(_)) == {c \in S : \A d \in S : key(d) <= key(c)}
\* maximisers of a fraction-valued key f(c) = [num, den], den > 0
ArgMaxFrac(S, f(_)) == {c \in S : \A d \in S : f(d).num * f(c).den <= f(c).num * f(d).den}
BestPrefClass(S) == {c \in S : \A d \in S : d.pref <= c.pref}

\* ---- kill_by_memory_size_or_growth(size_threshold %, growing_size_percentile P, min_growth_ratio rn/rd)
KMGSize(S, thr) == {c \in S : c.usage * 100 >= SumUsage(S) * thr}
\* the ceil(|S| * (100 - P) / 100) largest by effective usage (everything when P = 0)
CeilDiv(a, b) == (a + b - 1) \div b
KMGTop(S, P) ==
  IF P = 0 THEN S
  ELSE LET k == CeilDiv(Cardinality(S) * (100 - P), 100) IN
       {c \in S : Cardinality({d \in S : Eff(d) > Eff(c)}) < k}
\* usage / new moving average, the previous average being the fraction avgn / avgd
Growth(c) == [num |-> 4 * c.usage * c.avgd, den |-> 3 * c.avgn + c.usage * c.avgd]
Grows(c, rn, rd) == Growth(c).den > 0 /\ Growth(c).num * rd >= Growth(c).den * rn
KMGGrowth(S, P, rn, rd) == {c \in KMGTop(S, P) : Grows(c, rn, rd)}
KMGFirst(S, thr, P, rn, rd) ==
  LET C == BestPrefClass(S)
      sz == KMGSize(S, thr) \cap C
      gr == KMGGrowth(S, P, rn, rd) \cap C
  IN IF sz # {} THEN ArgMaxBy(sz, Eff)
     ELSE IF gr # {} THEN ArgMaxFrac(gr, Growth)
     ELSE ArgMaxBy(C, Eff)

\* ---- kill_by_swap_usage(threshold, biased): ratio = SwapTotal / MemTotal = sn/sd
SwapElig(S, thr) == {c \in S : c.swap > thr}
SwapKey(c, biased, sn, sd) ==       \* as a fraction over sd
  IF biased THEN (IF c.swap * sd - sn * c.prot > 0 THEN c.swap * sd - sn * c.prot ELSE 0) ELSE c.swap * sd
SwapFirst(S, thr, biased, sn, sd) ==
  LET E == SwapElig(S, thr) IN
  IF E = {} THEN {} ELSE ArgMaxBy(BestPrefClass(E), LAMBDA c : SwapKey(c, biased, sn, sd))

\* ---- kill_by_pressure: highest mean of 10 s and 60 s pressure
PressureFirst(S) == IF S = {} THEN {} ELSE ArgMaxBy(BestPrefClass(S), LAMBDA c : c.p10 + c.p60)
\* ---- kill_by_io_cost: largest io-cost increase
IoFirst(S) == IF S = {} THEN {} ELSE ArgMaxBy(BestPrefClass(S), LAMBDA c : c.io)
\* ---- kill_by_pg_scan: largest positive pgscan increase
PgElig(S) == {c \in S : c.pg > 0}
PgFirst(S) == IF PgElig(S) = {} THEN {} ELSE ArgMaxBy(BestPrefClass(PgElig(S)), LAMBDA c : c.pg)

\* P: parameters record [plugin, thr, P, rn, rd, biased, sn, sd]
Eligible(S, P) ==
  CASE P.plugin = "kill_by_swap_usage" -> SwapElig(S, P.thr)
    [] P.plugin = "kill_by_pg_scan" -> PgElig(S)
    [] OTHER -> S
First(S, P) ==
  CASE P.plugin = "kill_by_memory_size_or_growth" -> IF S = {} THEN {} ELSE KMGFirst(S, P.thr, P.P, P.rn, P.rd)
    [] P.plugin = "kill_by_swap_usage" -> SwapFirst(S, P.thr, P.biased, P.sn, P.sd)
    [] P.plugin = "kill_by_pressure" -> PressureFirst(S)
    [] P.plugin = "kill_by_io_cost" -> IoFirst(S)
    [] P.plugin = "kill_by_pg_scan" -> PgFirst(S)
=============================================================================
