SPECIFICATION TraceSpec
CONSTRAINT TraceProgress
POSTCONDITION TraceAccepted
INVARIANTS SwappinessRestored KeyedByIdentity
CHECK_DEADLOCK FALSE
