------------------------- MODULE CgroupStats_Trace -------------------------
(* Stage B for C15: every answer of the real CgroupContext accessors, recorded by stats_driver.cpp, *)
(* must be the value CgroupStats.tla computes from the abstract kernel state and the tick history.  *)
EXTENDS CgroupStats, Json, IOUtils

VARIABLE l
tvars == <<svars, l>>
TraceLog == ndJsonDeserialize(IOEnv.TRACE)
N == Len(TraceLog)
Ev == TraceLog[l]
IsEv(name) == l <= N /\ Ev.e = name
Consume == l' = l + 1
SeqToSet(s) == {s[i] : i \in DOMAIN s}

KOf(ks) == [p \in {ks[i].path : i \in DOMAIN ks} |-> ks[CHOOSE i \in DOMAIN ks : ks[i].path = p].rec]
CfgOf(c) == [devs |-> [d \in {c.devs[i].dev : i \in DOMAIN c.devs} |-> c.devs[CHOOSE i \in DOMAIN c.devs : c.devs[i].dev = d].kind],
             ssd |-> c.ssd, hdd |-> c.hdd, decay |-> c.decay]

TraceInit == SInit /\ l = 1 /\ TLCSet(1, 0)
TReset == IsEv("SReset") /\ Consume /\ SReset(KOf(Ev.K), Ev.sys, CfgOf(Ev.cfg))
TKC == IsEv("KC") /\ Consume /\ KernelChange(Ev.n.path, Ev.n.rec)
TSys == IsEv("Sys") /\ Consume /\ SysChange(Ev.sys)
TTree == IsEv("Tree") /\ Consume /\ TreeChange(KOf(Ev.K))
TRefresh == IsEv("Refresh") /\ Consume /\ Refresh
TEnd == IsEv("SEnd") /\ Consume /\ UNCHANGED svars
\* a listing of a cgroup's directory that failed half way (an entry vanished between readdir and fstatat) as the LAST
\* access of a tick: nothing of it is reported, and it leaves no trace in the next tick (whose listing is complete)
TListFault == IsEv("ListFault") /\ Consume /\ UNCHANGED svars
TQM == IsEv("QM") /\ Consume /\ QueryMissing(Ev.p)
\* the observed value: pg_scan_rate may be "not available", every other statistic must be available
Obs == IF Ev.f = "children" THEN SeqToSet(Ev.r.v) ELSE Ev.r.v
TQ == IsEv("Q") /\ Consume /\ Query(Ev.p, Ev.f, Ev.r.has, Obs)

TraceNext == TListFault \/ TReset \/ TKC \/ TSys \/ TTree \/ TRefresh \/ TEnd \/ TQM \/ TQ
TraceSpec == TraceInit /\ [][TraceNext]_tvars
TraceProgress == TLCSet(1, IF TLCGet(1) < l THEN l ELSE TLCGet(1))
TraceAccepted == /\ PrintT(<<"MAXL", TLCGet(1), "OF", N>>) /\ TLCGet(1) = N + 1
=============================================================================
