--------------------------- MODULE Ranking_Trace ---------------------------
(* Stage B for C09: the first cgroup each real kill plugin attempts (first cgroup.procs opened for   *)
(* killing, rank_driver.cpp) must be one of the maximisers Ranking.tla allows for the same sibling   *)
(* statistics and parameters; "" means the plugin attempted nothing.                                 *)
EXTENDS Ranking, Json, IOUtils
VARIABLE l
TraceLog == ndJsonDeserialize(IOEnv.TRACE)
N == Len(TraceLog)
Ev == TraceLog[l]
SeqToSet(s) == {s[i] : i \in DOMAIN s}
TraceInit == l = 1 /\ TLCSet(1, 0)
TSkip == l <= N /\ Ev.e \in {"SReset", "SEnd"} /\ l' = l + 1
TRank == /\ l <= N /\ Ev.e = "RankCase" /\ l' = l + 1
         /\ LET F == First(SeqToSet(Ev.S), Ev.P) IN
            IF Ev.first = "" THEN F = {} ELSE \E x \in F : x.name = Ev.first
TraceNext == TSkip \/ TRank
TraceSpec == TraceInit /\ [][TraceNext]_l
TraceProgress == TLCSet(1, IF TLCGet(1) < l THEN l ELSE TLCGet(1))
TraceAccepted == /\ PrintT(<<"MAXL", TLCGet(1), "OF", N>>) /\ TLCGet(1) = N + 1
=============================================================================
