----------------------------- MODULE MC_Senpai -----------------------------
(* Stage S for C18: the Senpai design against the declarative bounds of the statement, for two     *)
(* matched cgroups with values around floor and ceiling, pressure totals stepping under / over the *)
(* target, both modes, with and without memory.reclaim / memory.high.tmp, removal and re-creation. *)
EXTENDS Senpai
CONSTANTS Modes, MaxTicksP, Small

VARIABLES wlog, nticks   \* wlog: writes of the current tick [path, file, v, c (cgroup record), kind]
mcv == <<wlog, nticks>>

Fr(n, d) == [num |-> n, den |-> d]
Cfg(mode, mod) == [mode |-> mode, limitMin |-> 2, limitMax |-> 6, memTotal |-> 40, interval |-> 1, pressureUs |-> 10,
                   maxProbe |-> Fr(1, 2), maxBackoff |-> Fr(1, 1), memPct |-> Fr(1, 1), ioPct |-> Fr(1, 1), swapThr |-> Fr(1, 2),
                   swapValidation |-> TRUE, modulate |-> mod]
Cgrp(path, id, usage, fc, total, lf, ms, util, hasR, hasT) ==
  [path |-> path, id |-> id, usage |-> usage, fileCache |-> fc, anon |-> usage - fc, effSwapFree |-> 3, effSwapMax |-> 10,
   swapUtilPpm |-> util, memMin |-> 0, memHigh |-> 30, memMax |-> 12, limitFile |-> lf, total |-> total,
   memSome10 |-> ms, memSome60 |-> 0, ioSome10 |-> 0, ioSome60 |-> 0, hasReclaim |-> hasR, hasHighTmp |-> hasT]

MCInit == SInit /\ wlog = <<>> /\ nticks = 0
MCStart == /\ scfg.mode = "none" /\ \E m \in Modes, mod \in BOOLEAN : (mod => m = "immediate") /\ SReset(Cfg(m, mod))
           /\ UNCHANGED mcv
LimitOf(id) == IF id \in DOMAIN track THEN track[id].limit ELSE Inf
Totals(id) == IF id \in DOMAIN track THEN {track[id].lastTotal, track[id].lastTotal + 4, track[id].lastTotal + 10} ELSE {0}
MCTickBegin ==
  /\ scfg.mode # "none" /\ pos = 0 /\ nticks < MaxTicksP
  /\ \E hasR \in BOOLEAN, hasT \in BOOLEAN, id1 \in {1, 3}, present2 \in BOOLEAN :
       (feat.reclaim = "unknown" \/ hasR = (feat.reclaim = "yes")) /\ (feat.hightmp = "unknown" \/ hasT = (feat.hightmp = "yes")) /\
       \E u1 \in (IF Small THEN {14} ELSE {4, 14}), fc1 \in {0, 4}, t1 \in Totals(id1), ms \in (IF Small THEN {0} ELSE {0, 200}),
          util \in (IF Small THEN {100000} ELSE {100000, 900000}),
          lf1 \in {LimitOf(id1), Inf} :
         LET c1 == Cgrp("w1", id1, u1, fc1, t1, lf1, ms, util, hasR, hasT)
             c2 == Cgrp("w2", 2, 8, 2, 0, LimitOf(2), 0, util, hasR, hasT)
             cs == IF present2 THEN (IF id1 < 2 THEN <<c1, c2>> ELSE <<c2, c1>>) ELSE <<c1>>
         IN TickBegin(cs, [swaptotal |-> 10, swappiness |-> 60])
  /\ wlog' = <<>> /\ nticks' = nticks + 1

MCWrite ==
  /\ pos > 0 /\ step = "do"
  /\ \E file \in {"memory.high", "memory.high.tmp", "memory.reclaim"}, v \in 0..45 \cup {Inf} :
       /\ Write(Cur.path, file, v)
       /\ wlog' = Append(wlog, [path |-> Cur.path, file |-> file, v |-> v, c |-> Cur, kind |-> pend[1], swp |-> swp])
  /\ UNCHANGED nticks
MCFail == /\ pos > 0 /\ step = "do"
          /\ \E file \in {"memory.high", "memory.high.tmp", "memory.reclaim"} :
               /\ WriteFailed(Cur.path, file)
               /\ wlog' = Append(wlog, [path |-> Cur.path, file |-> file, v |-> 0, c |-> Cur, kind |-> "failed", swp |-> swp])
          /\ UNCHANGED nticks
MCVanish == /\ pos > 0 /\ \E k \in DOMAIN cgs : cgs[k].path \notin gone /\ Vanish(cgs[k].path)
            /\ UNCHANGED mcv
MCSwp == (\E v \in {0, 30, 60} : Swappiness(v)) /\ UNCHANGED mcv
MCNext == MCStart \/ MCTickBegin \/ MCVanish \/ MCWrite \/ MCFail \/ MCSwp \/ (SSilent /\ UNCHANGED mcv) \/ (TickEnd /\ UNCHANGED mcv)
MCSpec == MCInit /\ [][MCNext]_<<sv, mcv>>

\* ---------------------------------------------------------------- the statement, declaratively
FloorD(c) == Max2(scfg.limitMin + c.usage - (c.fileCache + (IF c.effSwapFree > 0 THEN Min2(c.effSwapFree, c.anon) ELSE 0)), c.memMin)
CeilD(c, tmp) == Min2(Min2(Min2(scfg.memTotal, c.usage + scfg.limitMax), IF tmp THEN c.memHigh ELSE Inf), c.memMax)
OnlyMatched == \A i \in DOMAIN wlog : wlog[i].path \in {"w1", "w2"}
LimitBounds ==
  \A i \in DOMAIN wlog :
    LET w == wlog[i] tmp == w.file = "memory.high.tmp" IN
    (w.file # "memory.reclaim" /\ w.kind \in {"track", "adjust"}) =>
      \/ w.v = w.c.usage
      \/ (w.v >= FloorD(w.c) - 1 /\ (w.v <= CeilD(w.c, tmp) \/ FloorD(w.c) > CeilD(w.c, tmp)))
BackoffGuards ==
  \A i \in DOMAIN wlog :
    LET w == wlog[i] IN
    w.kind = "reclaim" =>
      /\ (w.file = "memory.reclaim" => w.v * scfg.maxProbe.den <= (w.c.usage - FloorD(w.c)) * scfg.maxProbe.num)
      /\ Max2(w.c.memSome10, w.c.memSome60) * scfg.memPct.den < scfg.memPct.num * 100
      /\ (scfg.swapValidation => w.c.swapUtilPpm * scfg.swapThr.den < scfg.swapThr.num * 1000000)
      /\ (scfg.modulate => w.swp = "lowered")
\* a temporary poke is reset to max in the same tick
PokeReset ==
  (pos = 0 /\ wlog # <<>>) =>
    \A i \in DOMAIN wlog : (wlog[i].kind = "reclaim" /\ wlog[i].file # "memory.reclaim") =>
        \* (unless the kernel refused the reset write itself, or the cgroup was removed in between)
        (wlog[i].path \in gone) \/ (i < Len(wlog) /\ wlog[i + 1].path = wlog[i].path /\
           (wlog[i + 1].kind = "failed" \/ (wlog[i + 1].kind = "resetmax" /\ wlog[i + 1].v = Inf)))

Wit ==
  (IF \E i \in DOMAIN wlog : wlog[i].kind = "adjust" /\ wlog[i].v < wlog[i].c.limitFile THEN {"Probed"} ELSE {}) \cup
  (IF \E i \in DOMAIN wlog : wlog[i].kind = "adjust" /\ wlog[i].v > wlog[i].c.limitFile THEN {"BackedOff"} ELSE {}) \cup
  (IF \E i \in DOMAIN wlog : wlog[i].kind = "adjust" /\ FloorD(wlog[i].c) > CeilD(wlog[i].c, FALSE) THEN {"FloorAboveCeiling"} ELSE {}) \cup
  (IF \E i \in DOMAIN wlog : wlog[i].kind = "reclaim" /\ wlog[i].file = "memory.reclaim" THEN {"Reclaimed"} ELSE {}) \cup
  (IF \E i \in DOMAIN wlog : wlog[i].kind = "resetmax" THEN {"PokedAndReset"} ELSE {}) \cup
  (IF gone # {} /\ pos > 0 /\ Cur.path \in gone /\ step = "do" /\ pend # <<>> THEN {"VanishedBeforeItsWrite"} ELSE {}) \cup
  (IF swp = "lowered" THEN {"SwappinessLowered"} ELSE {}) \cup
  (IF \E i \in DOMAIN wlog : wlog[i].kind = "track" /\ wlog[i].c.id = 3 THEN {"RecreatedIsTrackedAfresh"} ELSE {})
WitnessInit == TLCSet(2, {})
WitnessAcc == TLCSet(2, TLCGet(2) \cup Wit)
WitnessReport == PrintT(<<"WITNESSES", TLCGet(2)>>)
MCWitSpec == (MCInit /\ WitnessInit) /\ [][MCNext]_<<sv, mcv>>
=============================================================================
