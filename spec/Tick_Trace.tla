----------------------------- MODULE Tick_Trace -----------------------------
(* Stage B for C10: every fault-injected execution of the real tick (tick_driver.cpp, one forked  *)
(* child per fault) must be a behaviour of Tick.tla: both ticks end, every signal is contained.  *)
(* An execution that died leaves an "Abort" line, for which no action exists.                     *)
EXTENDS Tick, Json, IOUtils
VARIABLE l
tvars == <<tvars0, l>>
TraceLog == ndJsonDeserialize(IOEnv.TRACE)
N == Len(TraceLog)
Ev == TraceLog[l]
IsEv(name) == l <= N /\ Ev.e = name
Consume1 == l' = l + 1
SeqToSet(s) == {s[i] : i \in DOMAIN s}
TraceInit == TInit /\ l = 1 /\ TLCSet(1, 0)
TRst == IsEv("SReset") /\ Consume1 /\ TReset
TBeg == IsEv("TickBegin") /\ Consume1 /\ TickBegin(Ev.tick)
TEndT == IsEv("TickEnd") /\ Consume1 /\ TickEnd(Ev.tick)
TPO == IsEv("ProcsOpen") /\ Consume1 /\ ProcsOpen(Ev.p, SeqToSet(Ev.pids))
TKill == IsEv("Kill") /\ Consume1 /\ Signal(Ev.pid, Ev.sig)
TQuery == IsEv("StatQuery") /\ Consume1 /\ Query(Ev.avail)
\* one accessor answers an EMPTY file with a default instead of "unavailable" (a comment in Fs.cpp says so for
\* cgroup.stat): accepted here so that the rest of the execution is still validated; chk_tick.py reports each as a
\* known finding, and as a violation if known_findings.txt does not list it
EmptyDefaults == {<<"cgroup.stat", "nr_dying_descendants">>}
TQueryDefault == /\ IsEv("StatQuery") /\ Consume1 /\ Ev.avail /\ Ev.kind = "empty" /\ <<Ev.file, Ev.field>> \in EmptyDefaults
                 /\ Query(FALSE)
\* an execution is complete only after both ticks
TEnd == IsEv("SEnd") /\ Consume1 /\ tno = 2 /\ Over
TraceNext == TRst \/ TBeg \/ TEndT \/ TPO \/ TKill \/ TQuery \/ TQueryDefault \/ TEnd
TraceSpec == TraceInit /\ [][TraceNext]_tvars
TraceProgress == TLCSet(1, IF TLCGet(1) < l THEN l ELSE TLCGet(1))
TraceAccepted == /\ PrintT(<<"MAXL", TLCGet(1), "OF", N>>) /\ TLCGet(1) = N + 1
=============================================================================
