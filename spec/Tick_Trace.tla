----------------------------- MODULE Tick_Trace -----------------------------
(* Stage B for C10: every fault-injected execution of the real tick (tick_driver.cpp, one forked  *)
(* child per fault) must be a behaviour of Tick.tla: both ticks end, every signal is contained.  *)
(* An execution that died leaves an "Abort" line, for which no action exists.                     *)
EXTENDS Tick, Json, IOUtils
VARIABLE l
tvars == <<tvars0, l>>
TraceLog == ndJsonDeserialize(IOEnv.TRACE)
N == Len(TraceLog)
Ev == TraceLog[l]
IsEv(name) == l <= N /\ Ev.e = name
Consume1 == l' = l + 1
SeqToSet(s) == {s[i] : i \in DOMAIN s}
TraceInit == TInit /\ l = 1 /\ TLCSet(1, 0)
TRst == IsEv("SReset") /\ Consume1 /\ TReset
TBeg == IsEv("TickBegin") /\ Consume1 /\ TickBegin(Ev.tick)
TEndT == IsEv("TickEnd") /\ Consume1 /\ TickEnd(Ev.tick)
TPO == IsEv("ProcsOpen") /\ Consume1 /\ ProcsOpen(Ev.p, SeqToSet(Ev.pids))
TKill == IsEv("Kill") /\ Consume1 /\ Signal(Ev.pid, Ev.sig)
\* an execution is complete only after both ticks
TEnd == IsEv("SEnd") /\ Consume1 /\ tno = 2 /\ Over
TraceNext == TRst \/ TBeg \/ TEndT \/ TPO \/ TKill \/ TEnd
TraceSpec == TraceInit /\ [][TraceNext]_tvars
TraceProgress == TLCSet(1, IF TLCGet(1) < l THEN l ELSE TLCGet(1))
TraceAccepted == /\ PrintT(<<"MAXL", TLCGet(1), "OF", N>>) /\ TLCGet(1) = N + 1
=============================================================================
