---- MODULE MC_Tick_TTrace_1790827297 ----
EXTENDS MC_Tick, Sequences, TLCExt, Toolbox, Naturals, TLC

_expression ==
    LET MC_Tick_TEExpression == INSTANCE MC_Tick_TEExpression
    IN MC_Tick_TEExpression!expression
----

_trace ==
    LET MC_Tick_TETrace == INSTANCE MC_Tick_TETrace
    IN MC_Tick_TETrace!trace
----

_inv ==
    ~(
        TLCGet("level") = Len(_TETrace)
        /\
        nacc = (0)
        /\
        stat = (<<>>)
        /\
        tno = (1)
        /\
        readPids = (<<>>)
        /\
        sigs = ({})
        /\
        used = ({})
        /\
        tph = ("tick")
    )
----

_init ==
    /\ tno = _TETrace[1].tno
    /\ tph = _TETrace[1].tph
    /\ used = _TETrace[1].used
    /\ readPids = _TETrace[1].readPids
    /\ sigs = _TETrace[1].sigs
    /\ nacc = _TETrace[1].nacc
    /\ stat = _TETrace[1].stat
----

_next ==
    /\ \E i,j \in DOMAIN _TETrace:
        /\ \/ /\ j = i + 1
              /\ i = TLCGet("level")
        /\ tno  = _TETrace[i].tno
        /\ tno' = _TETrace[j].tno
        /\ tph  = _TETrace[i].tph
        /\ tph' = _TETrace[j].tph
        /\ used  = _TETrace[i].used
        /\ used' = _TETrace[j].used
        /\ readPids  = _TETrace[i].readPids
        /\ readPids' = _TETrace[j].readPids
        /\ sigs  = _TETrace[i].sigs
        /\ sigs' = _TETrace[j].sigs
        /\ nacc  = _TETrace[i].nacc
        /\ nacc' = _TETrace[j].nacc
        /\ stat  = _TETrace[i].stat
        /\ stat' = _TETrace[j].stat

\* Uncomment the ASSUME below to write the states of the error trace
\* to the given file in Json format. Note that you can pass any tuple
\* to `JsonSerialize`. For example, a sub-sequence of _TETrace.
    \* ASSUME
    \*     LET J == INSTANCE Json
    \*         IN J!JsonSerialize("MC_Tick_TTrace_1790827297.json", _TETrace)

=============================================================================

 Note that you can extract this module `MC_Tick_TEExpression`
  to a dedicated file to reuse `expression` (the module in the 
  dedicated `MC_Tick_TEExpression.tla` file takes precedence 
  over the module `MC_Tick_TEExpression` below).

---- MODULE MC_Tick_TEExpression ----
EXTENDS MC_Tick, Sequences, TLCExt, Toolbox, Naturals, TLC

expression == 
    [
        \* To hide variables of the `MC_Tick` spec from the error trace,
        \* remove the variables below.  The trace will be written in the order
        \* of the fields of this record.
        tno |-> tno
        ,tph |-> tph
        ,used |-> used
        ,readPids |-> readPids
        ,sigs |-> sigs
        ,nacc |-> nacc
        ,stat |-> stat
        
        \* Put additional constant-, state-, and action-level expressions here:
        \* ,_stateNumber |-> _TEPosition
        \* ,_tnoUnchanged |-> tno = tno'
        
        \* Format the `tno` variable as Json value.
        \* ,_tnoJson |->
        \*     LET J == INSTANCE Json
        \*     IN J!ToJson(tno)
        
        \* Lastly, you may build expressions over arbitrary sets of states by
        \* leveraging the _TETrace operator.  For example, this is how to
        \* count the number of times a spec variable changed up to the current
        \* state in the trace.
        \* ,_tnoModCount |->
        \*     LET F[s \in DOMAIN _TETrace] ==
        \*         IF s = 1 THEN 0
        \*         ELSE IF _TETrace[s].tno # _TETrace[s-1].tno
        \*             THEN 1 + F[s-1] ELSE F[s-1]
        \*     IN F[_TEPosition - 1]
    ]

=============================================================================



Parsing and semantic processing can take forever if the trace below is long.
 In this case, it is advised to uncomment the module below to deserialize the
 trace from a generated binary file.

\*
\*---- MODULE MC_Tick_TETrace ----
\*EXTENDS MC_Tick, IOUtils, TLC
\*
\*trace == IODeserialize("MC_Tick_TTrace_1790827297.bin", TRUE)
\*
\*=============================================================================
\*

---- MODULE MC_Tick_TETrace ----
EXTENDS MC_Tick, TLC

trace == 
    <<
    ([nacc |-> 0,stat |-> <<>>,tno |-> 0,readPids |-> <<>>,sigs |-> {},used |-> {},tph |-> "idle"]),
    ([nacc |-> 0,stat |-> <<>>,tno |-> 1,readPids |-> <<>>,sigs |-> {},used |-> {},tph |-> "tick"])
    >>
----


=============================================================================

---- CONFIG MC_Tick_TTrace_1790827297 ----
CONSTANTS
    Files = { "memory.current" , "memory.stat" , "cgroup.procs" }
    MaxAcc = 4
    MaxTicksT = 2

INVARIANT
    _inv

CHECK_DEADLOCK
    \* CHECK_DEADLOCK off because of PROPERTY or INVARIANT above.
    FALSE

INIT
    _init

NEXT
    _next

CONSTANT
    _TETrace <- _trace

ALIAS
    _expression
=============================================================================
\* Generated on Thu Oct 01 04:01:38 UTC 2026