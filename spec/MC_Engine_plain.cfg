\* C02 C05 C06 stage S: 2 rulesets (2 groups / own-delay action / zero delay), every return value
\* history, tick spacings landing before / on / after the pause boundary, clock advancing in calls.
SPECIFICATION MCSpec
CONSTANTS
  MCConfigs <- CfgPlain
  MCUnits = {}
  MCTags = {}
  MaxTicks = 2
  MaxOps = 0
  DTs = {0, 1000, 2000}
  Advs = {0}
  DetRets = {"CONTINUE", "STOP", "ASYNC"}
  ActRets = {"CONTINUE", "STOP", "ASYNC"}
  ProbePaths = {}
INVARIANTS TypeOK AllRunOnce ChainRule NoActionInPause PauseIsDeclared FreshUuids NoUseAfterDestroy
CHECK_DEADLOCK FALSE
