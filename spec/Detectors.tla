------------------------------ MODULE Detectors ------------------------------
(***************************************************************************)
(* C08: each core detector returns CONTINUE exactly when its documented    *)
(* predicate holds over all samples it has seen.                           *)
(*                                                                         *)
(* Two descriptions side by side:                                          *)
(*   Verdict - the arm / disarm state machine (shaped like the code),      *)
(*   Doc     - the documented predicate over the whole sample history.     *)
(* Stage S checks Verdict = Doc on every history TLC can build; stage B    *)
(* requires the real plugin's return value to equal Verdict at every tick. *)
(*                                                                         *)
(* Units: pressure in 1/100 %, sizes in abstract units, time in ms,        *)
(* durations in s.  A sample is the list of matched cgroups' values.       *)
(***************************************************************************)
EXTENDS Integers, Sequences, FiniteSets, TLC

VARIABLES
  dcfg,   \* [kind, thr, dur, ratioPct, anon, negate, lte, count, pct, bps]
  dst,    \* [hit, lastP10, lastPg, reclaimAt]   state of the detector instance
  dhist,  \* history of samples: Seq of [t, w]  (w: watched record of that tick)
  dret,   \* verdict of the last tick (TRUE = CONTINUE)
  dnow

dvars == <<dcfg, dst, dhist, dret, dnow>>

MaxOf(S) == CHOOSE x \in S : \A y \in S : y <= x
Weight(c) == 3 * c.p10 + 2 * c.p60 + c.p300

\* the cgroup under the most pressure (none if all are at zero); ties are free
MostPressured(cs) ==
  LET pos == {i \in DOMAIN cs : Weight(cs[i]) > 0} IN
  IF pos = {} THEN {[p10 |-> 0, p60 |-> 0, p300 |-> 0]}
  ELSE {[p10 |-> cs[i].p10, p60 |-> cs[i].p60, p300 |-> cs[i].p300] :
          i \in {j \in pos : \A k \in pos : Weight(cs[k]) <= Weight(cs[j])}}
LargestUsage(cs) == IF cs = <<>> THEN 0 ELSE MaxOf({cs[i].usage : i \in DOMAIN cs} \cup {0})
SumPgscan(cs) == LET RECURSIVE S(_) S(i) == IF i = 0 THEN 0 ELSE cs[i].pgscan + S(i - 1) IN S(Len(cs))

Secs(ms) == ms \div 1000

DInit == /\ dcfg = [kind |-> "none"] /\ dst = [hit |-> 0, lastP10 |-> 10000, lastPg |-> 0, reclaimAt |-> 0]
         /\ dhist = <<>> /\ dnow = 0 /\ dret = FALSE
DReset(cfg, t) ==
  /\ dcfg' = cfg /\ dst' = [hit |-> 0, lastP10 |-> 10000, lastPg |-> 0, reclaimAt |-> 0]
  /\ dhist' = <<>> /\ dnow' = t /\ dret' = FALSE

\* ---------------------------------------------------------------- state machine
\* "above threshold for duration": armed at the first exceeding sample, disarmed by a single miss
Armed(above, t) == IF above THEN (IF dst.hit = 0 THEN t ELSE dst.hit) ELSE 0
DurationMet(above, t) == above /\ Secs(t - Armed(above, t)) >= dcfg.dur

\* w: the watched values of this tick (chosen among the permitted candidates)
Verdict(w, t) ==
  CASE dcfg.kind = "pressure_above" -> DurationMet(w.p10 > 100 * dcfg.thr, t)
    [] dcfg.kind = "pressure_rising_beyond" ->
         /\ DurationMet(w.p60 > 100 * dcfg.thr, t)
         /\ w.p10 > 100 * dcfg.thr
         /\ ~(w.p10 * 100 < dst.lastP10 * dcfg.ratioPct)
    [] dcfg.kind = "memory_above" -> DurationMet(w.usage > dcfg.thr, t)
    [] dcfg.kind = "memory_reclaim" ->
         Secs(t - (IF w.pgscan > dst.lastPg THEN t ELSE dst.reclaimAt)) <= dcfg.dur
    [] dcfg.kind = "swap_free" -> (w.total - w.used) < (w.total * dcfg.pct) \div 100 /\ w.bps >= dcfg.bps
    [] dcfg.kind = "exists" -> (w.n > 0) # dcfg.negate
    [] dcfg.kind = "nr_dying_descendants" -> w.hit

NextState(w, t) ==
  CASE dcfg.kind = "pressure_above" -> [dst EXCEPT !.hit = Armed(w.p10 > 100 * dcfg.thr, t), !.lastP10 = w.p10]
    [] dcfg.kind = "pressure_rising_beyond" -> [dst EXCEPT !.hit = Armed(w.p60 > 100 * dcfg.thr, t), !.lastP10 = w.p10]
    [] dcfg.kind = "memory_above" -> [dst EXCEPT !.hit = Armed(w.usage > dcfg.thr, t)]
    [] dcfg.kind = "memory_reclaim" -> [dst EXCEPT !.lastPg = w.pgscan,
                                                   !.reclaimAt = IF w.pgscan > dst.lastPg THEN t ELSE dst.reclaimAt]
    [] OTHER -> dst

\* the watched value(s) permitted for a sample (cs: Seq of matched cgroups' records)
Watched(cs, sysv) ==
  CASE dcfg.kind \in {"pressure_above", "pressure_rising_beyond"} -> MostPressured(cs)
    [] dcfg.kind = "memory_above" -> {[usage |-> LargestUsage(cs)]}
    [] dcfg.kind = "memory_reclaim" -> {[pgscan |-> SumPgscan(cs)]}
    [] dcfg.kind = "swap_free" -> {sysv}
    [] dcfg.kind = "exists" -> {[n |-> Len(cs)]}
    [] dcfg.kind = "nr_dying_descendants" ->
         {[hit |-> \E i \in DOMAIN cs : IF dcfg.lte THEN cs[i].dying <= dcfg.count ELSE cs[i].dying > dcfg.count]}

\* one tick: time advances, the detector samples and answers ret
DTick(t, cs, sysv, ret) ==
  /\ t >= dnow /\ t > 0
  /\ \E w \in Watched(cs, sysv) :
       /\ ret = (IF Verdict(w, t) THEN "CONTINUE" ELSE "STOP")
       /\ dret' = Verdict(w, t)
       /\ dst' = NextState(w, t)
       /\ dhist' = Append(dhist, [t |-> t, w |-> w])
  /\ dnow' = t
  /\ UNCHANGED dcfg

\* ---------------------------------------------------------------- documented predicates over the history
Last == dhist[Len(dhist)]
AboveFor(sel(_)) ==   \* sel(w): the sample exceeds; true at every tick since a tick >= dur seconds ago
  \E j \in DOMAIN dhist :
    /\ Secs(Last.t - dhist[j].t) >= dcfg.dur
    /\ \A k \in j..Len(dhist) : sel(dhist[k].w)
PrevP10 == IF Len(dhist) >= 2 THEN dhist[Len(dhist) - 1].w.p10 ELSE 10000
Doc ==
  CASE dcfg.kind = "pressure_above" -> AboveFor(LAMBDA w : w.p10 > 100 * dcfg.thr)
    [] dcfg.kind = "pressure_rising_beyond" ->
         /\ AboveFor(LAMBDA w : w.p60 > 100 * dcfg.thr)
         /\ Last.w.p10 > 100 * dcfg.thr
         /\ Last.w.p10 * 100 >= PrevP10 * dcfg.ratioPct
    [] dcfg.kind = "memory_above" -> AboveFor(LAMBDA w : w.usage > dcfg.thr)
    [] dcfg.kind = "memory_reclaim" ->
         \E j \in DOMAIN dhist :
           /\ dhist[j].w.pgscan > (IF j = 1 THEN 0 ELSE dhist[j - 1].w.pgscan)
           /\ Secs(Last.t - dhist[j].t) <= dcfg.dur
    [] OTHER -> TRUE

\* Stage S: at every tick the state machine's verdict is the documented predicate of the history
VerdictIsDoc ==
  (dhist # <<>> /\ dcfg.kind \in {"pressure_above", "pressure_rising_beyond", "memory_above", "memory_reclaim"})
    => (dret = Doc)
\* a single non-exceeding sample restarts the duration clock
SingleMissRestarts ==
  (dhist # <<>> /\ dcfg.kind \in {"pressure_above", "memory_above"} /\ dcfg.dur > 0) =>
    (\A j \in DOMAIN dhist :
        (~(IF dcfg.kind = "pressure_above" THEN dhist[j].w.p10 > 100 * dcfg.thr ELSE dhist[j].w.usage > dcfg.thr)
           /\ Secs(Last.t - dhist[j].t) < dcfg.dur) => ~dret)
=============================================================================
