SPECIFICATION MCSpec
CONSTANTS
  Cap = 4
  Threads = {1, 2}
  MsgsPerThread = 3
  Sizes = {1, 2, 4}
INVARIANTS NoDuplicates OnlyAccepted PerThreadFifo Bounded FlushedAtShutdown
PROPERTY FlushOnShutdown
CHECK_DEADLOCK FALSE
