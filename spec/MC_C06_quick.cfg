SPECIFICATION MCSpec
CONSTANTS
  MCConfigs <- CfgAsync
  MCUnits <- NoUnits
  MCTags = {}
  MaxTicks = 4
  MaxOps = 0
  DTs = {1000}
  Advs = {0}
  DetRets = {"CONTINUE", "STOP"}
  ActRets = {"CONTINUE", "STOP", "ASYNC"}
  ProbePaths = {}
INVARIANTS TypeOK AllRunOnce ChainRule NoActionInPause PauseIsDeclared FreshUuids NoUseAfterDestroy DropinOrderOk AddedStatOk HookOrderOk
CHECK_DEADLOCK FALSE
