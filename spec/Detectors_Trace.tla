-------------------------- MODULE Detectors_Trace --------------------------
(* Stage B for C08: the PluginRet of each real core detector, per tick, on a simulated cgroupfs   *)
(* under a virtual clock (det_driver.cpp) must be the verdict of Detectors.tla for the same       *)
(* parameters and sample history.                                                                 *)
EXTENDS Detectors, Json, IOUtils
VARIABLE l
tvars == <<dvars, l>>
TraceLog == ndJsonDeserialize(IOEnv.TRACE)
N == Len(TraceLog)
Ev == TraceLog[l]
IsEv(name) == l <= N /\ Ev.e = name
Consume == l' = l + 1
TraceInit == DInit /\ l = 1 /\ TLCSet(1, 0)
TReset == IsEv("SReset") /\ Consume /\ DReset(Ev.cfg, Ev.t)
TTick == IsEv("DTick") /\ Consume /\ DTick(Ev.t, Ev.cs, Ev.sys, Ev.ret)
TEnd == IsEv("SEnd") /\ Consume /\ UNCHANGED dvars
TraceNext == TReset \/ TTick \/ TEnd
TraceSpec == TraceInit /\ [][TraceNext]_tvars
TraceProgress == TLCSet(1, IF TLCGet(1) < l THEN l ELSE TLCGet(1))
TraceAccepted == /\ PrintT(<<"MAXL", TLCGet(1), "OF", N>>) /\ TLCGet(1) = N + 1
=============================================================================
