SPECIFICATION MCSpec
CONSTANTS
  Modes = {"normal", "immediate"}
  MaxTicksP = 3
  Small = FALSE
INVARIANTS OnlyMatched LimitBounds BackoffGuards PokeReset SwappinessRestored KeyedByIdentity
CHECK_DEADLOCK FALSE
