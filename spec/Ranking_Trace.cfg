SPECIFICATION TraceSpec
CONSTRAINT TraceProgress
POSTCONDITION TraceAccepted
CHECK_DEADLOCK FALSE
