SPECIFICATION MCSpec
CONSTANTS
  MCShapes <- ShapeDeep
  MCPats <- PatsTwo
  MCHooks <- HooksNone
  MCFlags <- FlagsRec
  MCAttrs <- AttrSet
  MCPlugins = {"kill_by_memory_size_or_growth"}
  MaxTicksK = 2
  TimeoutsK = {2}
  MaxOpens = 1
  EnvEdits = TRUE
  MidRun = "cand"
INVARIANTS Containment OrderRespected NoDescentBelowOomGroup UnpopulatedNeverAttempted DryIsPure NoSignalWhileHookOutstanding AtMostOneInvocation OneFirePerVictim RetMapping NoFireAfterWindow
CHECK_DEADLOCK FALSE
