------------------------------- MODULE Engine -------------------------------
(***************************************************************************)
(* The oomd rule engine: Engine / Ruleset / DetectorGroup, drop-in         *)
(* rulesets and hooks, and ruleset-level cgroup instances.                 *)
(*                                                                         *)
(* One action per call boundary of the implementation.  Every action that  *)
(* corresponds to an observable event takes the *observed* values as       *)
(* parameters and is enabled only if they are what the design prescribes;  *)
(* MC_Engine.tla quantifies over them (stage S), Engine_Trace.tla binds    *)
(* them to the events recorded from the real code (stage B).               *)
(*                                                                         *)
(* Properties decided here: C02 C05 C06 C11 C13 (and hook order for C07).  *)
(***************************************************************************)
EXTENDS Integers, Sequences, FiniteSets, TLC, SequencesExt

VARIABLES
  now,        \* virtual CLOCK_MONOTONIC in ms
  phase,      \* "boot" (compiling) | "idle" (between ticks) | "tick"
  defs,       \* rk -> ruleset definition (static once installed)
  st,         \* rk -> [pauseUntil, susp]  dynamic state of a runnable ruleset
  bases,      \* Seq of [rk, dropins : Seq([tag, rk])]   configuration order
  insts,      \* rk of a cgroup-ruleset -> (path -> rk of its instance)
  hooks,      \* Seq of [tag, id, pats]  in priority order (first = tried first)
  world,      \* set of [path, tags]     cgroups as the engine sees them
  agenda,     \* remaining micro-steps of the current tick
  cur,        \* [fired, gstop] scratch of the ruleset being evaluated
  ctx,        \* current ActionContext
  invoking,   \* rk of the invoking ruleset, 0 = none
  uuidCtr,    \* number of run uuids generated so far (tokens 1..uuidCtr)
  uuidMap,    \* token -> uuid value observed for it
  nextRk,
  pend,       \* Init events of plugins constructed but not yet installed
  live,       \* serials of constructed, not yet destroyed plugin objects
  cgVisited,  \* paths visited in the cgroup-ruleset being evaluated
  stats,      \* [added, fired]  oomd.dropin.added / oomd.dropin.fired
  tickFired,  \* number of drop-in chains completed in this tick
  lastRet,    \* 1 iff the ruleset evaluated last ran its chain to completion (runOnce result)
  \* ---- history (ghost) variables used only by the properties ----
  tlog,       \* calls of the current tick, in order
  tpre,       \* st at TickBegin
  lastStop,   \* rk -> [has, t, d]  last STOP of the ruleset and its effective delay
  ops         \* successful drop-in operations so far (C13 reference)

vars == <<now, phase, defs, st, bases, insts, hooks, world, agenda, cur, ctx,
          invoking, uuidCtr, uuidMap, nextRk, pend, live, cgVisited, stats,
          tickFired, lastRet, tlog, tpre, lastStop, ops>>

----------------------------------------------------------------------------
(* Constants of the vocabulary *)

CONTINUE == "CONTINUE"   STOP == "STOP"   ASYNC == "ASYNC"
Rets == {CONTINUE, STOP, ASYNC}

NoPath  == <<"-">>
NullCtx == [rs |-> "", dg |-> "", uuid |-> 0, deadline |-> -1, target |-> NoPath]
NoSusp  == [has |-> FALSE, act |-> 0, ctx |-> NullCtx]
FreshSt == [pauseUntil |-> 0, susp |-> NoSusp]
NoStop  == [has |-> FALSE, t |-> 0, d |-> 0]

Item(op, rk, g, k, p) == [op |-> op, rk |-> rk, g |-> g, k |-> k, p |-> p]

Max2(a, b) == IF a >= b THEN a ELSE b

----------------------------------------------------------------------------
(* Static helpers over ruleset definitions                                  *)
(* def == [name, tag, kind, groups, acts, delay, timeout, pat, filter,      *)
(*         dod, pd, pa, target]                                             *)
(*   groups : Seq([name, dets : Seq(plugin)]), acts : Seq(plugin)           *)
(*   plugin == [id, serial, delay, cg]   delay = -1: none; cg: own cgroup   *)
(*                                        argument ("" = none)              *)

DetIds(d) == FlattenSeq([g \in DOMAIN d.groups |->
                 [k \in DOMAIN d.groups[g].dets |-> d.groups[g].dets[k].id]])
ActIds(d) == [k \in DOMAIN d.acts |-> d.acts[k].id]
PlugIds(d) == DetIds(d) \o ActIds(d)

Serials(d) ==
  UNION {{d.groups[g].dets[k].serial : k \in DOMAIN d.groups[g].dets} : g \in DOMAIN d.groups}
  \cup {d.acts[k].serial : k \in DOMAIN d.acts}

PendIds == [i \in DOMAIN pend |-> pend[i].id]
\* C11 / C12: the plugin objects of a per-cgroup instance are constructed with the arguments as configured; only a
\* ACTION without a "cgroup" argument of its own is given the instance's cgroup (dflt)
RECURSIVE JoinPath(_)
JoinPath(p) == IF p = <<>> THEN "" ELSE IF Len(p) = 1 THEN p[1] ELSE p[1] \o "/" \o JoinPath(Tail(p))
PlugCgs(d, dflt) ==
  LET own(pl) == IF pl.cg # "" THEN pl.cg ELSE dflt IN
  \* (detectors are re-created with exactly their configured arguments; they learn their cgroup from the context)
  FlattenSeq([g \in DOMAIN d.groups |-> [k \in DOMAIN d.groups[g].dets |-> d.groups[g].dets[k].cg]])
    \o [k \in DOMAIN d.acts |-> own(d.acts[k])]
PendCgOk(d, dflt) ==
  \A i \in DOMAIN pend : "cg" \in DOMAIN pend[i] => pend[i].cg = PlugCgs(d, dflt)[i]
SerialFor(id) == pend[CHOOSE i \in DOMAIN pend : pend[i].id = id].serial

\* A definition whose plugin objects are the ones announced in pend.
Bind(d) ==
  [d EXCEPT
     !.groups = [g \in DOMAIN d.groups |->
                   [d.groups[g] EXCEPT !.dets =
                      [k \in DOMAIN d.groups[g].dets |->
                         [d.groups[g].dets[k] EXCEPT !.serial = SerialFor(d.groups[g].dets[k].id)]]]],
     !.acts = [k \in DOMAIN d.acts |-> [d.acts[k] EXCEPT !.serial = SerialFor(d.acts[k].id)]]]

\* the same, but looking only at a slice of pend: two rulesets of one unit may be copies of the same base and carry
\* the same plugin ids, so each is bound to the segment of Init events its own construction produced
BindIn(d, slice) ==
  LET Ser(id) == slice[CHOOSE i \in DOMAIN slice : slice[i].id = id].serial IN
  [d EXCEPT
     !.groups = [g \in DOMAIN d.groups |->
                   [d.groups[g] EXCEPT !.dets =
                      [k \in DOMAIN d.groups[g].dets |->
                         [d.groups[g].dets[k] EXCEPT !.serial = Ser(d.groups[g].dets[k].id)]]]],
     !.acts = [k \in DOMAIN d.acts |-> [d.acts[k] EXCEPT !.serial = Ser(d.acts[k].id)]]]

Enabled(b) == ~(defs[b.rk].dod /\ Len(b.dropins) > 0)

\* Component-wise pattern match: "*" stands for exactly one whole component.
GlobMatch(pat, path) ==
  /\ Len(pat) = Len(path)
  /\ \A i \in DOMAIN pat : pat[i] = "*" \/ pat[i] = path[i]

\* docs/prekill_hooks.md: equal, ancestor of a possible match, or below a match.
HookMatch(path, pat) ==
  \A i \in 1..(IF Len(path) < Len(pat) THEN Len(path) ELSE Len(pat)) :
      pat[i] = "*" \/ pat[i] = path[i]

Matching(rk) ==
  {w.path : w \in {x \in world : /\ GlobMatch(defs[rk].pat, x.path)
                                 /\ (defs[rk].filter = "" \/ defs[rk].filter \in x.tags)}}

FirstHook(path) ==
  LET m == SelectSeq(hooks, LAMBDA h : \E p \in h.pats : HookMatch(path, p))
  IN IF m = <<>> THEN "" ELSE m[1].id

----------------------------------------------------------------------------
(* Agenda construction *)

PreItems(rk) ==
  LET d == defs[rk] IN
  FlattenSeq([g \in DOMAIN d.groups |->
                [k \in DOMAIN d.groups[g].dets |-> Item("preD", rk, g, k, NoPath)]])
  \o [k \in DOMAIN d.acts |-> Item("preA", rk, 0, k, NoPath)]

\* prerun of one ruleset object: its own plugins and, for a cgroup ruleset,
\* every live instance (C11: "receive prerun on every tick")
PreRs(rk) ==
  PreItems(rk) \o (IF defs[rk].pat # <<>> THEN <<Item("preI", rk, 0, 0, NoPath)>> ELSE <<>>)

DetItems(rk) ==
  LET d == defs[rk] IN
  FlattenSeq([g \in DOMAIN d.groups |->
                [k \in DOMAIN d.groups[g].dets |-> Item("det", rk, g, k, NoPath)]])

TickAgenda ==
  FlattenSeq([i \in DOMAIN bases |->
     FlattenSeq([j \in DOMAIN bases[i].dropins |-> PreRs(bases[i].dropins[j].rk)])
     \o (IF Enabled(bases[i]) THEN PreRs(bases[i].rk) ELSE <<>>)])
  \o
  FlattenSeq([i \in DOMAIN bases |->
     [j \in DOMAIN bases[i].dropins |-> Item("rs", bases[i].dropins[j].rk, 0, 0, NoPath)]
     \o (IF Enabled(bases[i]) THEN <<Item("rs", bases[i].rk, 0, 0, NoPath)>> ELSE <<>>)])
  \o <<Item("tickEnd", 0, 0, 0, NoPath)>>

Head1 == agenda[1]
Rest  == Tail(agenda)

----------------------------------------------------------------------------
(* Context observation.  A uuid is a token in the specification; the value  *)
(* the code shows for it is bound at the first observation and must be      *)
(* fresh then, and identical at every later one.                            *)

SeenOk(seen) ==
  /\ seen.rs = ctx.rs /\ seen.dg = ctx.dg
  /\ seen.deadline = ctx.deadline /\ seen.target = ctx.target
  /\ IF ctx.uuid = 0 THEN seen.uuid = 0
     ELSE IF ctx.uuid \in DOMAIN uuidMap THEN uuidMap[ctx.uuid] = seen.uuid
     ELSE seen.uuid # 0 /\ seen.uuid \notin Range(uuidMap)

BindUuid(seen) ==
  uuidMap' = IF ctx.uuid # 0 /\ ctx.uuid \notin DOMAIN uuidMap
             THEN [t \in DOMAIN uuidMap \cup {ctx.uuid} |->
                     IF t = ctx.uuid THEN seen.uuid ELSE uuidMap[t]]
             ELSE uuidMap

----------------------------------------------------------------------------
(* Initial state: nothing compiled yet *)

Init ==
  /\ now = 0 /\ phase = "boot"
  /\ defs = <<>> /\ st = <<>> /\ bases = <<>> /\ insts = <<>>
  /\ hooks = <<>> /\ world = {}
  /\ agenda = <<>> /\ cur = [fired |-> 0, gstop |-> FALSE]
  /\ ctx = NullCtx /\ invoking = 0
  /\ uuidCtr = 0 /\ uuidMap = <<>> /\ nextRk = 1
  /\ pend = <<>> /\ live = {} /\ cgVisited = {}
  /\ stats = [added |-> 0, fired |-> 0] /\ tickFired = 0 /\ lastRet = 0
  /\ tlog = <<>> /\ tpre = <<>> /\ lastStop = <<>> /\ ops = <<>>

----------------------------------------------------------------------------
(* Plugin object life cycle (Init / Dtor events) *)

PluginInit(serial, id) ==
  /\ serial \notin live
  /\ live' = live \cup {serial}
  /\ pend' = Append(pend, [serial |-> serial, id |-> id])
  /\ UNCHANGED <<now, phase, defs, st, bases, insts, hooks, world, agenda, cur, ctx,
                 invoking, uuidCtr, uuidMap, nextRk, cgVisited, stats, tickFired, lastRet,
                 tlog, tpre, lastStop, ops>>

\* the same, with the "cgroup" argument the object was constructed with (recorded traces; the model's own
\* announcements carry none and the rule below is then void)
PluginInitCg(serial, id, cg) ==
  /\ serial \notin live
  /\ live' = live \cup {serial}
  /\ pend' = Append(pend, [serial |-> serial, id |-> id, cg |-> cg])
  /\ UNCHANGED <<now, phase, defs, st, bases, insts, hooks, world, agenda, cur, ctx,
                 invoking, uuidCtr, uuidMap, nextRk, cgVisited, stats, tickFired, lastRet,
                 tlog, tpre, lastStop, ops>>

PluginDtor(serial) ==
  /\ serial \in live
  /\ live' = live \ {serial}
  /\ pend' = SelectSeq(pend, LAMBDA p : p.serial # serial)
  /\ UNCHANGED <<now, phase, defs, st, bases, insts, hooks, world, agenda, cur, ctx,
                 invoking, uuidCtr, uuidMap, nextRk, cgVisited, stats, tickFired, lastRet,
                 tlog, tpre, lastStop, ops>>

----------------------------------------------------------------------------
(* Boot: the base configuration has been compiled.                          *)
(*   cfg  : Seq of definitions (serials unbound), in configuration order    *)
(*   hks  : Seq of [id, pats] base hooks in configuration order             *)

Install(cfg, hks, t0, w0) ==
  /\ phase = "boot"
  /\ PendIds = FlattenSeq([i \in DOMAIN cfg |-> PlugIds(cfg[i])])
  \* the objects of the base configuration are constructed with the "cgroup" argument as configured ("" = none)
  /\ LET want == FlattenSeq([i \in DOMAIN cfg |-> PlugCgs(cfg[i], "")]) IN
       \A i \in DOMAIN pend : "cg" \in DOMAIN pend[i] => pend[i].cg = want[i]
  /\ defs' = [i \in DOMAIN cfg |-> Bind(cfg[i])]
  /\ st' = [i \in DOMAIN cfg |-> FreshSt]
  /\ lastStop' = [i \in DOMAIN cfg |-> NoStop]
  /\ insts' = [i \in DOMAIN cfg |-> <<>>]
  /\ bases' = [i \in DOMAIN cfg |-> [rk |-> i, dropins |-> <<>>]]
  /\ hooks' = [i \in DOMAIN hks |-> [tag |-> "", id |-> hks[i].id, pats |-> hks[i].pats]]
  /\ nextRk' = Len(cfg) + 1
  /\ pend' = <<>>
  /\ now' = t0 /\ world' = w0
  /\ phase' = "idle"
  /\ UNCHANGED <<agenda, cur, ctx, invoking, uuidCtr, uuidMap, live, cgVisited, stats,
                 tickFired, lastRet, tlog, tpre, ops>>

----------------------------------------------------------------------------
(* Environment between ticks *)

WorldSet(w) ==
  /\ phase = "idle"
  /\ world' = w /\ tlog' = <<>>
  /\ UNCHANGED <<now, phase, defs, st, bases, insts, hooks, agenda, cur, ctx, invoking,
                 uuidCtr, uuidMap, nextRk, pend, live, cgVisited, stats, tickFired, lastRet,
                 tpre, lastStop, ops>>

----------------------------------------------------------------------------
(* Drop-in operations (between ticks): DropInServiceAdaptor::scheduleDropIn* *)
(* followed by updateDropIns.                                               *)
(*   unit == [rulesets : Seq([name, groups, acts]), hooks : Seq([id,pats])] *)
(*   a drop-in ruleset with groups = <<>> keeps the base's detector groups, *)
(*   likewise for acts.                                                     *)

BaseIdx(name) == {i \in DOMAIN bases : defs[bases[i].rk].name = name}

DropRsOk(r) ==
  /\ BaseIdx(r.name) # {}
  /\ LET b == defs[bases[CHOOSE i \in BaseIdx(r.name) : \A j \in BaseIdx(r.name) : i <= j].rk] IN
       /\ (r.groups # <<>> => b.pd)
       /\ (r.acts # <<>> => b.pa)

UnitOk(unit) == \A i \in DOMAIN unit.rulesets : DropRsOk(unit.rulesets[i])

\* the first base with that name (std::find_if)
TargetIdx(name) == CHOOSE i \in BaseIdx(name) : \A j \in BaseIdx(name) : i <= j

\* definition of the drop-in copy: the base definition with the supplied parts replaced
Merged(r, tag) ==
  LET b == defs[bases[TargetIdx(r.name)].rk] IN
  [b EXCEPT !.tag = tag, !.kind = "dropin",
            !.groups = IF r.groups # <<>> THEN r.groups ELSE b.groups,
            !.acts = IF r.acts # <<>> THEN r.acts ELSE b.acts]

\* ids of the plugin objects that survive compileDropIn for one drop-in ruleset, in
\* construction order: kept parts of the fresh base copy, then the supplied parts
MergedPendIds(r) ==
  LET b == defs[bases[TargetIdx(r.name)].rk]
      rd == [groups |-> r.groups, acts |-> r.acts]
  IN (IF r.groups = <<>> THEN DetIds(b) ELSE <<>>) \o (IF r.acts = <<>> THEN ActIds(b) ELSE <<>>)
     \o DetIds(rd) \o ActIds(rd)

RemoveTag(bs, tag) ==
  [i \in DOMAIN bs |-> [bs[i] EXCEPT !.dropins = SelectSeq(@, LAMBDA d : d.tag # tag)]]

NumDropins(bs) == LET RECURSIVE S(_) S(i) == IF i = 0 THEN 0 ELSE Len(bs[i].dropins) + S(i-1)
                  IN S(Len(bs))

\* push the unit's rulesets, in unit order, each to the front of its target's list
RECURSIVE PushAll(_, _, _, _)
PushAll(bs, unit, tag, n) ==
  IF n > Len(unit.rulesets) THEN bs
  ELSE LET r == unit.rulesets[n]
           i == TargetIdx(r.name)
       IN PushAll([bs EXCEPT ![i].dropins = <<[tag |-> tag, rk |-> nextRk + n - 1]>> \o @],
                  unit, tag, n + 1)

DropAdd(tag, unit, ok) ==
  /\ phase = "idle"
  /\ ok = UnitOk(unit)
  /\ IF ~ok
     THEN \* refused as a whole, nothing left behind, engine unchanged
          /\ pend = <<>>
          /\ UNCHANGED <<defs, st, bases, insts, hooks, nextRk, pend, stats, lastStop, ops>>
     ELSE LET n == Len(unit.rulesets)
              RECURSIVE Off(_)
              Off(j) == IF j = 1 THEN 0 ELSE Off(j - 1) + Len(MergedPendIds(unit.rulesets[j - 1]))
              newDefs == [j \in 1..n |->
                            BindIn(Merged(unit.rulesets[j], tag),
                                   SubSeq(pend, Off(j) + 1, Off(j) + Len(MergedPendIds(unit.rulesets[j]))))]
          IN
          /\ PendIds = FlattenSeq([j \in 1..n |-> MergedPendIds(unit.rulesets[j])])
          /\ defs' = defs \o newDefs
          /\ st' = st \o [j \in 1..n |-> FreshSt]
          /\ lastStop' = lastStop \o [j \in 1..n |-> NoStop]
          /\ insts' = insts \o [j \in 1..n |-> <<>>]
          /\ bases' = PushAll(RemoveTag(bases, tag), unit, tag, 1)
          /\ hooks' = [j \in DOMAIN unit.hooks |->
                         [tag |-> tag, id |-> unit.hooks[j].id, pats |-> unit.hooks[j].pats]]
                      \o SelectSeq(hooks, LAMBDA h : h.tag # tag)
          /\ nextRk' = nextRk + n
          /\ pend' = <<>>
          /\ stats' = [stats EXCEPT !.added = NumDropins(bases')]
          /\ ops' = Append(ops, [op |-> "add", tag |-> tag, unit |-> unit])
  /\ tlog' = <<>>
  /\ UNCHANGED <<now, phase, world, agenda, cur, ctx, invoking, uuidCtr, uuidMap, live,
                 cgVisited, tickFired, lastRet, tpre>>

DropRemove(tag) ==
  /\ phase = "idle"
  /\ pend = <<>>
  /\ bases' = RemoveTag(bases, tag)
  /\ hooks' = SelectSeq(hooks, LAMBDA h : h.tag # tag)
  /\ stats' = [stats EXCEPT !.added = NumDropins(bases')]
  /\ ops' = Append(ops, [op |-> "remove", tag |-> tag, unit |-> [rulesets |-> <<>>, hooks |-> <<>>]])
  /\ tlog' = <<>>
  /\ UNCHANGED <<now, phase, defs, st, insts, world, agenda, cur, ctx, invoking, uuidCtr,
                 uuidMap, nextRk, pend, live, cgVisited, tickFired, lastRet, tpre, lastStop>>

\* Which hook would fire for a victim at path (Engine::firePrekillHook); "" = none
HookProbe(path, hookId) ==
  /\ phase = "idle"
  /\ hookId = FirstHook(path)
  /\ UNCHANGED vars

----------------------------------------------------------------------------
(* A tick *)

TickBegin(t) ==
  /\ phase = "idle" /\ pend = <<>>
  /\ t >= now
  /\ now' = t /\ phase' = "tick"
  /\ agenda' = TickAgenda
  /\ tlog' = <<>> /\ tpre' = st /\ tickFired' = 0 /\ lastRet' = 0
  /\ UNCHANGED <<defs, st, bases, insts, hooks, world, cur, ctx, invoking, uuidCtr,
                 uuidMap, nextRk, pend, live, cgVisited, stats, lastStop, ops>>

Prerun(serial) ==
  /\ phase = "tick" /\ agenda # <<>>
  /\ Head1.op \in {"preD", "preA"}
  /\ LET d == defs[Head1.rk]
         p == IF Head1.op = "preD" THEN d.groups[Head1.g].dets[Head1.k] ELSE d.acts[Head1.k]
     IN /\ serial = p.serial
        /\ tlog' = Append(tlog, [op |-> "pre", rk |-> Head1.rk, serial |-> serial,
                                  ret |-> "", t |-> now, ctx |-> NullCtx, g |-> Head1.g, k |-> Head1.k])
  /\ agenda' = Rest
  /\ UNCHANGED <<now, phase, defs, st, bases, insts, hooks, world, cur, ctx, invoking,
                 uuidCtr, uuidMap, nextRk, pend, live, cgVisited, stats, tickFired, lastRet,
                 tpre, lastStop, ops>>

\* prerun of the live instances of a cgroup ruleset, in any order (hash order in the code)
PrerunInsts ==
  /\ phase = "tick" /\ agenda # <<>> /\ Head1.op = "preI"
  /\ LET rk == Head1.rk
         todo == {p \in DOMAIN insts[rk] : p \notin cgVisited}
     IN IF todo = {}
        THEN /\ agenda' = Rest /\ cgVisited' = {}
        ELSE \E p \in todo :
               /\ agenda' = PreItems(insts[rk][p]) \o agenda
               /\ cgVisited' = cgVisited \cup {p}
  /\ UNCHANGED <<now, phase, defs, st, bases, insts, hooks, world, cur, ctx, invoking,
                 uuidCtr, uuidMap, nextRk, pend, live, stats, tickFired, lastRet, tlog, tpre,
                 lastStop, ops>>

\* Ruleset::runOnce entry
RsBegin ==
  /\ phase = "tick" /\ agenda # <<>> /\ Head1.op = "rs"
  /\ LET rk == Head1.rk IN
       IF defs[rk].pat = <<>>
       THEN /\ agenda' = DetItems(rk) \o <<Item("decide", rk, 0, 0, NoPath),
                                            Item("end", rk, 0, 0, NoPath)>> \o Rest
            /\ cur' = [fired |-> 0, gstop |-> FALSE]
            /\ UNCHANGED cgVisited
       ELSE /\ agenda' = <<Item("cg", rk, 0, 0, NoPath)>> \o Rest
            /\ cgVisited' = {}
            /\ UNCHANGED cur
  /\ lastRet' = 0
  /\ UNCHANGED <<now, phase, defs, st, bases, insts, hooks, world, ctx, invoking, uuidCtr,
                 uuidMap, nextRk, pend, live, stats, tickFired, tlog, tpre, lastStop, ops>>

\* a detector runs
DetRun(serial, ret, adv, seen, seenHasRs) ==
  /\ phase = "tick" /\ agenda # <<>> /\ Head1.op = "det"
  /\ ret \in Rets /\ adv >= 0
  /\ LET rk == Head1.rk  g == Head1.g  k == Head1.k
         d == defs[rk]
         p == d.groups[g].dets[k]
         gstop == cur.gstop \/ ret = STOP
         lastOfGroup == k = Len(d.groups[g].dets)
         fires == lastOfGroup /\ ~gstop /\ cur.fired = 0
     IN
     /\ serial = p.serial
     /\ SeenOk(seen) /\ BindUuid(seen)
     /\ seenHasRs = (invoking # 0)
     /\ now' = now + adv
     /\ tlog' = Append(tlog, [op |-> "det", rk |-> rk, serial |-> serial, ret |-> ret,
                              t |-> now', ctx |-> ctx, g |-> g, k |-> k])
     /\ cur' = [fired |-> IF fires THEN g ELSE cur.fired,
                gstop |-> IF lastOfGroup THEN FALSE ELSE gstop]
     /\ IF fires
        THEN /\ uuidCtr' = uuidCtr + 1
             /\ ctx' = [rs |-> d.name, dg |-> d.groups[g].name, uuid |-> uuidCtr + 1,
                        deadline |-> now' + 1000 * d.timeout, target |-> d.target]
             /\ invoking' = rk
        ELSE UNCHANGED <<uuidCtr, ctx, invoking>>
  /\ agenda' = Rest
  /\ UNCHANGED <<phase, defs, st, bases, insts, hooks, world, nextRk, pend, live,
                 cgVisited, stats, tickFired, lastRet, tpre, lastStop, ops>>

\* after the detectors: pause check, resume a suspended chain or start a new one
\* (four named cases so that model-checking coverage shows each of them was exercised)
AtDecide == phase = "tick" /\ agenda # <<>> /\ Head1.op = "decide"
DecideUnch == UNCHANGED <<now, phase, defs, bases, insts, hooks, world, cur, uuidCtr, uuidMap,
                 nextRk, pend, live, cgVisited, stats, tickFired, lastRet, tlog, tpre, lastStop, ops>>

DecidePaused ==
  /\ AtDecide /\ now < st[Head1.rk].pauseUntil
  /\ agenda' = Rest
  /\ UNCHANGED <<st, ctx, invoking>> /\ DecideUnch

DecideResume ==
  /\ AtDecide /\ ~(now < st[Head1.rk].pauseUntil) /\ st[Head1.rk].susp.has
  /\ LET rk == Head1.rk IN
       /\ ctx' = st[rk].susp.ctx
       /\ invoking' = rk
       /\ st' = [st EXCEPT ![rk].susp = NoSusp]
       /\ agenda' = <<Item("act", rk, 0, st[rk].susp.act, NoPath)>> \o Rest
  /\ DecideUnch

DecideStart ==
  /\ AtDecide /\ ~(now < st[Head1.rk].pauseUntil) /\ ~st[Head1.rk].susp.has /\ cur.fired # 0
  /\ agenda' = <<Item("act", Head1.rk, 0, 1, NoPath)>> \o Rest
  /\ UNCHANGED <<st, ctx, invoking>> /\ DecideUnch

DecideQuiet ==
  /\ AtDecide /\ ~(now < st[Head1.rk].pauseUntil) /\ ~st[Head1.rk].susp.has /\ cur.fired = 0
  /\ agenda' = Rest
  /\ UNCHANGED <<st, ctx, invoking>> /\ DecideUnch

Decide == DecidePaused \/ DecideResume \/ DecideStart \/ DecideQuiet

\* what the documentation says (ghost side): the stopping action's own post_action_delay if it
\* has one, else the ruleset's.  Kept apart from EffDelay so that the two are compared.
DeclaredDelay(plugin, def) == IF plugin.delay # -1 THEN plugin.delay ELSE def.delay

EffDelay(rk, k) == IF defs[rk].acts[k].delay >= 0 THEN defs[rk].acts[k].delay ELSE defs[rk].delay

\* an action runs
ActRun(serial, ret, adv, seen, seenHasRs) ==
  /\ phase = "tick" /\ agenda # <<>> /\ Head1.op = "act"
  /\ ret \in Rets /\ adv >= 0
  /\ LET rk == Head1.rk  k == Head1.k
         d == defs[rk]
         p == d.acts[k]
     IN
     /\ serial = p.serial
     /\ SeenOk(seen) /\ BindUuid(seen)
     /\ seenHasRs = TRUE /\ invoking = rk
     /\ now' = now + adv
     /\ tlog' = Append(tlog, [op |-> "act", rk |-> rk, serial |-> serial, ret |-> ret,
                              t |-> now', ctx |-> ctx, g |-> 0, k |-> k])
     /\ CASE ret = CONTINUE ->
               /\ agenda' = (IF k < Len(d.acts) THEN <<Item("act", rk, 0, k + 1, NoPath)>> ELSE <<>>) \o Rest
               /\ lastRet' = IF k = Len(d.acts) THEN 1 ELSE lastRet
               /\ UNCHANGED <<st, lastStop>>
          [] ret = STOP ->
               /\ agenda' = Rest
               /\ st' = [st EXCEPT ![rk].pauseUntil = now' + 1000 * EffDelay(rk, k)]
               /\ lastStop' = [lastStop EXCEPT ![rk] = [has |-> TRUE, t |-> now', d |-> DeclaredDelay(p, d)]]
               /\ lastRet' = 1
          [] ret = ASYNC ->
               /\ agenda' = Rest
               /\ st' = [st EXCEPT ![rk].susp = [has |-> TRUE, act |-> k, ctx |-> ctx]]
               /\ UNCHANGED <<lastStop, lastRet>>
  /\ UNCHANGED <<phase, defs, bases, insts, hooks, world, cur, ctx, invoking, uuidCtr,
                 nextRk, pend, live, cgVisited, stats, tickFired, tpre, ops>>

\* leaving Ruleset::runOnceImpl: the context is wiped
RsEnd ==
  /\ phase = "tick" /\ agenda # <<>> /\ Head1.op = "end"
  /\ ctx' = NullCtx /\ invoking' = 0
  /\ agenda' = Rest
  /\ tickFired' = IF defs[Head1.rk].kind = "dropin" THEN tickFired + lastRet ELSE tickFired
  /\ UNCHANGED <<now, phase, defs, st, bases, insts, hooks, world, cur, uuidCtr, uuidMap,
                 nextRk, pend, live, cgVisited, stats, lastRet, tlog, tpre, lastStop, ops>>

\* cgroup ruleset: evaluate each matching cgroup once, in any order; then discard the rest
InstDef(rk, path) ==
  [defs[rk] EXCEPT !.kind = "inst", !.pat = <<>>, !.filter = "", !.target = path]

CgStep ==
  /\ phase = "tick" /\ agenda # <<>> /\ Head1.op = "cg"
  /\ LET rk == Head1.rk
         todo == Matching(rk) \ cgVisited
     IN
     IF todo = {}
     THEN \* every matching cgroup evaluated: forget the instances of the others
          /\ pend = <<>>
          /\ insts' = [insts EXCEPT ![rk] = [p \in (DOMAIN insts[rk]) \cap cgVisited |-> insts[rk][p]]]
          /\ agenda' = Rest
          /\ cgVisited' = {}
          \* a cgroup ruleset reports the result of the instance it evaluated last
          /\ tickFired' = IF defs[rk].kind = "dropin" /\ cgVisited # {} THEN tickFired + lastRet ELSE tickFired
          /\ UNCHANGED <<defs, st, lastStop, nextRk, pend>>
     ELSE \E path \in todo :
          /\ cgVisited' = cgVisited \cup {path}
          /\ UNCHANGED tickFired
          /\ IF path \in DOMAIN insts[rk]
             THEN /\ pend = <<>>
                  /\ agenda' = <<Item("rs", insts[rk][path], 0, 0, NoPath)>> \o agenda
                  /\ UNCHANGED <<defs, st, lastStop, insts, nextRk, pend>>
             ELSE \* new instance: clones of all plugins have just been constructed
                  /\ PendIds = PlugIds(defs[rk])
                  /\ PendCgOk(defs[rk], JoinPath(path))
                  /\ defs' = Append(defs, Bind(InstDef(rk, path)))
                  /\ st' = Append(st, FreshSt)
                  /\ lastStop' = Append(lastStop, NoStop)
                  /\ insts' = Append([insts EXCEPT ![rk] =
                                 [p \in (DOMAIN insts[rk]) \cup {path} |->
                                    IF p = path THEN nextRk ELSE insts[rk][p]]], <<>>)
                  /\ nextRk' = nextRk + 1
                  /\ pend' = <<>>
                  /\ agenda' = <<Item("preNew", nextRk, 0, 0, NoPath)>> \o agenda
  /\ UNCHANGED <<now, phase, bases, hooks, world, cur, ctx, invoking, uuidCtr, uuidMap,
                 live, stats, lastRet, tlog, tpre, ops>>

\* a freshly created instance is prerun at once and then evaluated
InstNew ==
  /\ phase = "tick" /\ agenda # <<>> /\ Head1.op = "preNew"
  /\ agenda' = PreItems(Head1.rk) \o <<Item("rs", Head1.rk, 0, 0, NoPath)>> \o Rest
  /\ UNCHANGED <<now, phase, defs, st, bases, insts, hooks, world, cur, ctx, invoking,
                 uuidCtr, uuidMap, nextRk, pend, live, cgVisited, stats, tickFired, lastRet, tlog,
                 tpre, lastStop, ops>>

TickEnd ==
  /\ phase = "tick" /\ agenda # <<>> /\ Head1.op = "tickEnd"
  /\ pend = <<>>
  /\ agenda' = <<>>
  /\ phase' = "idle"
  /\ stats' = [stats EXCEPT !.fired = @ + tickFired]
  /\ UNCHANGED <<now, defs, st, bases, insts, hooks, world, cur, ctx, invoking, uuidCtr,
                 uuidMap, nextRk, pend, live, cgVisited, tickFired, lastRet, tlog, tpre, lastStop, ops>>

\* the engine is torn down (process exit / end of an execution)
Shutdown ==
  /\ phase = "idle"
  /\ phase' = "done" /\ bases' = <<>> /\ hooks' = <<>>
  /\ UNCHANGED <<now, defs, st, insts, world, agenda, cur, ctx, invoking, uuidCtr, uuidMap,
                 nextRk, pend, live, cgVisited, stats, tickFired, lastRet, tlog, tpre, lastStop, ops>>

\* silent (unobservable) steps of a tick
Silent == PrerunInsts \/ RsBegin \/ Decide \/ RsEnd \/ CgStep \/ InstNew

----------------------------------------------------------------------------
(* PROPERTIES (declarative; they talk about the history variables only)     *)

TypeOK ==
  /\ phase \in {"boot", "idle", "tick", "done"}
  /\ now \in Nat
  /\ invoking \in 0..(nextRk - 1)

CallsOf(op, rk) == SelectSeq(tlog, LAMBDA c : c.op = op /\ c.rk = rk)

\* rks evaluated this tick = those with at least one detector call logged so far
GroupRets(rk, g) == {c.ret : c \in {x \in Range(tlog) : x.op = "det" /\ x.rk = rk /\ x.g = g}}
GroupDone(rk, g) == Cardinality({x \in Range(tlog) : x.op = "det" /\ x.rk = rk /\ x.g = g})
                      = Len(defs[rk].groups[g].dets)
Fired(rk, g) == GroupDone(rk, g) /\ STOP \notin GroupRets(rk, g)
FirstFired(rk) == IF \E g \in DOMAIN defs[rk].groups : Fired(rk, g)
                  THEN CHOOSE g \in DOMAIN defs[rk].groups :
                         Fired(rk, g) /\ \A h \in 1..(g-1) : ~Fired(rk, h)
                  ELSE 0

\* C02 AllRunOnce: when the tick is over every plugin of every evaluated ruleset has been
\* prerun exactly once and every detector has run exactly once (template plugins of cgroup
\* rulesets are prerun but only their instances run).
EvaluatedRks ==
  LET top == UNION {{bases[i].dropins[j].rk : j \in DOMAIN bases[i].dropins}
                      \cup (IF Enabled(bases[i]) THEN {bases[i].rk} ELSE {}) : i \in DOMAIN bases}
  IN {rk \in top : defs[rk].pat = <<>>}
     \cup UNION {{insts[rk][p] : p \in DOMAIN insts[rk]} : rk \in {r \in top : defs[r].pat # <<>>}}

AllRunOnce ==
  (phase = "idle" /\ tlog # <<>>) =>
    \A rk \in EvaluatedRks :
      /\ \A g \in DOMAIN defs[rk].groups : \A k \in DOMAIN defs[rk].groups[g].dets :
           /\ Len(SelectSeq(tlog, LAMBDA c : c.op = "det" /\ c.rk = rk /\ c.g = g /\ c.k = k)) = 1
           /\ Len(SelectSeq(tlog, LAMBDA c : c.op = "pre" /\ c.rk = rk /\ c.g = g /\ c.k = k)) = 1
      /\ \A k \in DOMAIN defs[rk].acts :
           Len(SelectSeq(tlog, LAMBDA c : c.op = "pre" /\ c.rk = rk /\ c.g = 0 /\ c.k = k)) = 1

\* C02 firing rule + C05 + C06, stated on the finished tick
ChainRule ==
  (phase = "idle" /\ tlog # <<>>) =>
    \A rk \in EvaluatedRks :
      LET acts == CallsOf("act", rk)
          dets == CallsOf("det", rk)
          tDecide == IF dets = <<>> THEN now ELSE dets[Len(dets)].t
          paused == lastStop[rk].has /\ rk \in DOMAIN tpre /\ tpre[rk].pauseUntil > tDecide
          wasSusp == rk \in DOMAIN tpre /\ tpre[rk].susp.has
          ff == FirstFired(rk)
      IN
      \* a chain (re)starts iff not paused and (suspended or a group fired)
      /\ (acts # <<>>) <=> (~paused /\ (wasSusp \/ ff # 0))
      /\ acts # <<>> =>
           \* resumes the very action that paused with its saved context, else starts at 1
           /\ acts[1].k = (IF wasSusp THEN tpre[rk].susp.act ELSE 1)
           /\ IF wasSusp THEN acts[1].ctx = tpre[rk].susp.ctx
              ELSE /\ acts[1].ctx.rs = defs[rk].name
                   /\ acts[1].ctx.dg = defs[rk].groups[ff].name
                   /\ acts[1].ctx.target = defs[rk].target
           \* configured order, same context, stops at first non-CONTINUE
           /\ \A i \in 2..Len(acts) :
                /\ acts[i].k = acts[i-1].k + 1
                /\ acts[i-1].ret = CONTINUE
                /\ acts[i].ctx = acts[1].ctx
           /\ (acts[Len(acts)].ret = CONTINUE => acts[Len(acts)].k = Len(defs[rk].acts))
           /\ (st[rk].susp.has <=> acts[Len(acts)].ret = ASYNC)
           /\ (st[rk].susp.has => /\ st[rk].susp.act = acts[Len(acts)].k
                                  /\ st[rk].susp.ctx = acts[1].ctx)

\* C05: no action of a ruleset runs before t + d after its last STOP
NoActionInPause ==
  \A i \in DOMAIN tlog :
    tlog[i].op = "act" =>
      LET rk == tlog[i].rk
          prevStops == {j \in 1..(i-1) : tlog[j].op = "act" /\ tlog[j].rk = rk /\ tlog[j].ret = STOP}
      IN \* a STOP earlier in this very tick ends the chain, so nothing may follow it
         /\ prevStops = {}
         /\ (rk \in DOMAIN tpre /\ tpre[rk].pauseUntil > 0) =>
               tlog[i].t >= tpre[rk].pauseUntil \/ ~lastStop[rk].has

\* the pause computed operationally is the declared one
PauseIsDeclared ==
  \A rk \in DOMAIN st :
    lastStop[rk].has => st[rk].pauseUntil = lastStop[rk].t + 1000 * lastStop[rk].d

\* C06: uuids of distinct chain starts are distinct (fresh uuid after a clean end)
FreshUuids ==
  \A a, b \in DOMAIN uuidMap : a # b => uuidMap[a] # uuidMap[b]

\* a plugin object is never used after it was destroyed
NoUseAfterDestroy ==
  phase = "tick" =>
  \A i \in DOMAIN bases :
    /\ Serials(defs[bases[i].rk]) \subseteq live
    /\ \A j \in DOMAIN bases[i].dropins : Serials(defs[bases[i].dropins[j].rk]) \subseteq live

\* C13 reference semantics: the active drop-ins of every base are the tags whose last
\* operation is an add targeting it, most recent first; the base is enabled unless it asks
\* to be disabled and is targeted; the counter equals the number of active drop-in rulesets.
LastOpIdx(tag) == CHOOSE i \in DOMAIN ops : ops[i].tag = tag /\ \A j \in DOMAIN ops : ops[j].tag = tag => j <= i
ActiveTags == {t \in {ops[i].tag : i \in DOMAIN ops} : ops[LastOpIdx(t)].op = "add"}
DeclDropins(i) ==
  \* pairs <<op index, position in unit>> targeting base i, newest first; inside one unit
  \* later rulesets are pushed later, hence in front
  LET name == defs[bases[i].rk].name
      hits == {<<LastOpIdx(t), n>> : t \in ActiveTags, n \in 1..8}
      good == {h \in hits : /\ h[2] \in DOMAIN ops[h[1]].unit.rulesets
                            /\ TargetIdx(ops[h[1]].unit.rulesets[h[2]].name) = i}
  IN good
DropinOrderOk ==
  phase \in {"idle", "tick"} =>
  \A i \in DOMAIN bases :
    LET dd == DeclDropins(i)
        ds == bases[i].dropins
    IN /\ Len(ds) = Cardinality(dd)
       /\ \A j \in DOMAIN ds : \E h \in dd :
            /\ ops[h[1]].tag = ds[j].tag
            /\ \A j2 \in DOMAIN ds : j2 > j =>
                 \E h2 \in dd : /\ ops[h2[1]].tag = ds[j2].tag
                                /\ (h2[1] < h[1] \/ (h2[1] = h[1] /\ h2[2] <= h[2]))
AddedStatOk == phase \in {"idle", "tick"} => stats.added = NumDropins(bases)

=============================================================================
