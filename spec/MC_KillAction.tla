--------------------------- MODULE MC_KillAction ---------------------------
(* Stage S for C01 C03 C04 C07 C17: the kill-path design against its declarative properties,  *)
(* over small cgroup worlds with every preference / oom.group / populated / key assignment of  *)
(* the chosen shapes, every flag combination, nondeterministic kill outcomes, hook completion *)
(* times and world changes (removal, re-creation) between ticks.                               *)
EXTENDS KillAction

CONSTANTS MCShapes,    \* set of sets of paths (tree shapes)
          MCPats,      \* set of pattern sets
          MCHooks,     \* set of hook lists
          MCFlags,     \* set of [recursive, dry, always, kernel, reap]
          MCPlugins,
          MCAttrs,     \* per-node attribute choices
          MaxTicksK, TimeoutsK, MaxOpens, EnvEdits,
          MidRun       \* "no" | "cand" | "any": a cgroup may empty in the middle of a run ("cand": the candidate in hand)

VARIABLES mcPids,      \* path -> pids currently listed in cgroup.procs (environment)
          mcInv, mcOpens, mcTimeout, mcRan

mcv == <<mcPids, mcInv, mcOpens, mcTimeout, mcRan>>

C(s) == [i \in 1..Len(s) |-> s[i]]
\* component literals: <<"a">>, <<"a","b">> ...
pA == <<<<"a">>>>          pAB == <<<<"a","b">>>>       pB == <<<<"b">>>>
pAx == <<<<"a">>, <<"x">>>>  pAy == <<<<"a">>, <<"y">>>>  pAxz == <<<<"a">>, <<"x">>, <<"z">>>>

ShapeSmall == {{pA, pAB, pAx, pAy}}
ShapeTiny == {{pA, pAB, pAx}}
ShapeDeep == {{pA, pAx, pAxz, pB}}
PatsStar == {{<<<<"a", "*">>>>}}                    \* a*  : matches a and ab, not a/x
PatsTwo == {{<<<<"a">>>>, <<<<"*">>, <<"x">>>>}}    \* a , */x : a root and its own child both match
HooksTwo == {<< [id |-> "h1", pats |-> {<<<<"a">>, <<"*">>>>}], [id |-> "h2", pats |-> {<<<<"*">>>>}] >>}
HooksNone == {<<>>}

\* per-node attribute choices: plain small, plain big, preferred small, avoided big, oom.group,
\* unpopulated (ties arise between equal keys)
AttrSet == { [pref |-> NORMAL, oomg |-> FALSE, pop |-> TRUE, key |-> 1],
             [pref |-> NORMAL, oomg |-> FALSE, pop |-> TRUE, key |-> 2],
             [pref |-> PREFER, oomg |-> FALSE, pop |-> TRUE, key |-> 1],
             [pref |-> AVOID, oomg |-> FALSE, pop |-> TRUE, key |-> 2],
             [pref |-> NORMAL, oomg |-> TRUE, pop |-> TRUE, key |-> 2],
             [pref |-> NORMAL, oomg |-> FALSE, pop |-> FALSE, key |-> 2] }
AttrLite == { [pref |-> NORMAL, oomg |-> FALSE, pop |-> TRUE, key |-> 1],
              [pref |-> NORMAL, oomg |-> FALSE, pop |-> TRUE, key |-> 2],
              [pref |-> NORMAL, oomg |-> FALSE, pop |-> FALSE, key |-> 2] }
AttrWit == { [pref |-> PREFER, oomg |-> FALSE, pop |-> TRUE, key |-> 1],
             [pref |-> AVOID, oomg |-> FALSE, pop |-> TRUE, key |-> 2],
             [pref |-> NORMAL, oomg |-> FALSE, pop |-> FALSE, key |-> 2] }
Worlds(shape) ==
  { {[path |-> p, gen |-> 1, pref |-> f[p].pref, oomg |-> f[p].oomg, pop |-> f[p].pop, key |-> f[p].key,
      elig |-> TRUE, pidsCur |-> 2] : p \in shape} : f \in [shape -> MCAttrs] }

PidsOf(p) == IF Len(p) = 1 THEN (IF p = pA THEN {11, 12} ELSE IF p = pAB THEN {21} ELSE {31})
             ELSE IF p = pAx THEN {41, 42} ELSE IF p = pAy THEN {51} ELSE {61}

Fl(r, d, a, k, rp) == [recursive |-> r, dry |-> d, always |-> a, kernel |-> k, reap |-> rp]
FlagsMain == {Fl(TRUE, FALSE, FALSE, FALSE, TRUE), Fl(FALSE, FALSE, FALSE, FALSE, FALSE), Fl(TRUE, TRUE, FALSE, FALSE, TRUE),
              Fl(TRUE, FALSE, TRUE, FALSE, FALSE), Fl(TRUE, FALSE, FALSE, TRUE, TRUE)}
FlagsDry == {Fl(TRUE, TRUE, FALSE, FALSE, TRUE), Fl(FALSE, TRUE, FALSE, TRUE, TRUE), Fl(TRUE, TRUE, TRUE, FALSE, FALSE), Fl(TRUE, FALSE, FALSE, FALSE, TRUE)}
FlagsWit == {Fl(TRUE, FALSE, FALSE, FALSE, TRUE), Fl(TRUE, TRUE, FALSE, FALSE, FALSE), Fl(TRUE, FALSE, TRUE, TRUE, FALSE)}
FlagsRec == {Fl(TRUE, FALSE, FALSE, FALSE, FALSE)}

MCInit ==
  /\ KInit
  /\ mcPids = <<>> /\ mcInv = 0 /\ mcOpens = 0 /\ mcTimeout = 0 /\ mcRan = TRUE

MCStart ==
  /\ kph = "idle" /\ ktick = 0 /\ kw = {}
  /\ \E shape \in MCShapes, pats \in MCPats, hooks \in MCHooks, f \in MCFlags, pl \in MCPlugins, to \in TimeoutsK :
       \E w \in Worlds(shape) :
         /\ KReset(w, [plugin |-> pl, pats |-> pats, recursive |-> f.recursive, dry |-> f.dry,
                       always |-> f.always, kernel |-> f.kernel, reap |-> f.reap, hooks |-> hooks],
                   <<>>, 1000000)
         /\ mcPids' = [p \in shape |-> PidsOf(p)]
         /\ mcTimeout' = to
  /\ UNCHANGED <<mcInv, mcOpens, mcRan>>

\* between ticks: a cgroup is removed, or re-created (new identity), or flips populated
MCEnv ==
  /\ kph = "idle" /\ kw # {} /\ ktick < MaxTicksK
  /\ \E dt \in {1000, 3000} :
       \/ KEnv(kw, know + dt)
       \/ (EnvEdits /\ \E n \in kw : KEnv(kw \ {m \in kw : IsUnder(m.path, n.path)}, know + dt))
       \/ (EnvEdits /\ \E n \in kw : KEnv((kw \ {n}) \cup {[n EXCEPT !.gen = n.gen + 1]}, know + dt))
  /\ mcRan' = FALSE /\ UNCHANGED <<mcPids, mcInv, mcOpens, mcTimeout>>

MCRun ==
  /\ kph = "idle" /\ ktick > 0 /\ ~mcRan
  \* the window is counted from when the chain fired: a resumed run sees the saved deadline
  /\ KRun(IF hk.has THEN kctx.deadline ELSE know + 1000 * mcTimeout)
  /\ mcRan' = TRUE /\ UNCHANGED <<mcPids, mcInv, mcOpens, mcTimeout>>

MCHook ==
  \/ /\ kph = "dfs" /\ stack # <<>>
     /\ HookFire(FirstHook(Top.path), mcInv + 1, Top.path, Top.gen)
     /\ mcInv' = mcInv + 1 /\ UNCHANGED <<mcPids, mcOpens, mcTimeout, mcRan>>
  \/ /\ \E res \in BOOLEAN : HookPollInline(hk.inv, res) \/ HookPollResume(hk.inv, res)
     /\ UNCHANGED mcv
  \/ HookDestroy(hk.inv) /\ mcOpens' = 0 /\ UNCHANGED <<mcPids, mcInv, mcTimeout, mcRan>>

MCAttempt ==
  \/ /\ \E ns \in {"trusted", "user"} :
          \/ XUuid(att.victim, ns, IF ns = "trusted" THEN Cardinality(uuids) + 1 ELSE att.uuid)
          \/ XOoms(att.victim, ns, XOf(att.victim).ooms[ns] + 1)
          \/ XKill(att.victim, ns, XOf(att.victim).kill[ns] + att.nr)
     /\ UNCHANGED mcv
  \/ /\ mcOpens < MaxOpens
     /\ \E p \in Subtree(att.victim) : ProcsOpen(p, IF p \in DOMAIN mcPids THEN mcPids[p] ELSE {})
     /\ mcOpens' = mcOpens + 1 /\ UNCHANGED <<mcPids, mcInv, mcTimeout, mcRan>>
  \/ /\ \E pid \in att.read, ok \in BOOLEAN :
          /\ Signal(pid, 9, ok)
          /\ mcPids' = IF ok THEN [p \in DOMAIN mcPids |-> mcPids[p] \ {pid}] ELSE mcPids
     /\ UNCHANGED <<mcInv, mcOpens, mcTimeout, mcRan>>
  \/ (\E pid \in att.read : Reap(pid)) /\ UNCHANGED mcv
  \/ (CtlFreeze(att.victim, "1") \/ CtlKill(att.victim, "1")) /\ UNCHANGED mcv
  \/ Kmsg(att.victim, kcfg.plugin, att.dry) /\ UNCHANGED mcv

\* inside a run: the last process of one cgroup exits (at most one such event per tick)
MCEmpty ==
  /\ MidRun # "no" /\ stale = {} /\ kph \in {"dfs", "attempt", "fired", "polled"}
  \* who is addressed: the candidate being looked at or attempted (MidRun = "any": any cgroup)
  /\ \E n \in kw : n.pop /\ (MidRun = "any" \/ (kph = "attempt" /\ n.path = att.victim) \/ (kph # "attempt" /\ stack # <<>> /\ n.path = Top.path))
               /\ KEmpty(n.path) /\ mcPids' = [p \in DOMAIN mcPids |-> IF p = n.path THEN {} ELSE mcPids[p]]
  /\ UNCHANGED <<mcInv, mcOpens, mcTimeout, mcRan>>

\* a child that is no candidate yet vanishes inside the tick (MidRun = "any" only)
MCGone ==
  /\ MidRun = "any" /\ kph = "dfs" /\ kcfg.recursive
  /\ \E n \in kw : KGone(n.path) /\ mcPids' = [p \in {q \in DOMAIN mcPids : ~IsUnder(q, n.path)} |-> mcPids[p]]
  /\ UNCHANGED <<mcInv, mcOpens, mcTimeout, mcRan>>

MCNext ==
  \/ MCStart \/ MCEmpty \/ MCGone \/ MCEnv \/ MCRun \/ MCHook \/ MCAttempt
  \/ (KSilent /\ IF kph' = "attempt" THEN mcOpens' = 0 /\ UNCHANGED <<mcPids, mcInv, mcTimeout, mcRan>> ELSE UNCHANGED mcv)
  \/ (KRet(kret) /\ UNCHANGED mcv)

MCSpec == MCInit /\ [][MCNext]_<<kvars, mcv>>

\* hook window (C07): a hook is only ever fired inside the window counted from the chain's firing
NoFireAfterWindow == kph = "fired" => know <= kctx.deadline \/ kctx.deadline < 0

\* ---------- witnesses (vacuity guards), accumulated in register 2 by a one-worker run
Wit ==
  (IF \E i \in DOMAIN khist : khist[i].kind = "expand" THEN {"Expanded"} ELSE {}) \cup
  (IF \E i \in DOMAIN khist : khist[i].kind = "skip" THEN {"SkippedUnpopulated"} ELSE {}) \cup
  (IF \E i \in DOMAIN khist : khist[i].kind = "attempt" /\ khist[i].nr = 0 /\ i < Len(khist) THEN {"FellBackAfterFailure"} ELSE {}) \cup
  (IF \E i \in DOMAIN khist : khist[i].kind = "gone" THEN {"VictimGoneDuringHook"} ELSE {}) \cup
  (IF hk.has THEN {"HookOutstanding"} ELSE {}) \cup
  (IF kph = "attempt" /\ att.victim \in stale THEN {"AttemptOnJustEmptied"} ELSE {}) \cup
  (IF kph = "attempt" /\ att.stage = "kkill" /\ ~Node(att.victim).pop THEN {"KernelKillSeesEmptied"} ELSE {}) \cup
  (IF kph = "resumed" /\ PastTimeout THEN {"HookTimedOut"} ELSE {}) \cup
  (IF \E i, j \in DOMAIN khist : i < j /\ khist[i].kind = "fire" /\ khist[j].kind = "fire" THEN {"SecondVictimFiresAgain"} ELSE {}) \cup
  (IF \E e \in keff : e.kind = "reap" THEN {"Reaped"} ELSE {}) \cup
  (IF \E e \in keff : e.kind = "ctl" THEN {"KernelKill"} ELSE {}) \cup
  (IF kcfg.dry /\ kph = "ret" /\ kret = "STOP" THEN {"DryStops"} ELSE {}) \cup
  (IF kph = "ret" /\ kret = "CONTINUE" /\ kcfg.always /\ Attempts # <<>> /\ Attempts[Len(Attempts)].nr > 0 THEN {"AlwaysContinueAfterKill"} ELSE {}) \cup
  (IF \E a, b \in Paths : a # b /\ Node(a).pref = PREFER /\ Node(b).pref = AVOID /\ Node(b).key > Node(a).key
        /\ \E i \in DOMAIN khist : khist[i].kind = "attempt" /\ khist[i].path = a THEN {"PreferBeatsBiggerAvoid"} ELSE {})
WitnessInit == TLCSet(2, {})
WitnessAcc == TLCSet(2, TLCGet(2) \cup Wit)
WitnessReport == PrintT(<<"WITNESSES", TLCGet(2)>>)
MCWitSpec == (MCInit /\ WitnessInit) /\ [][MCNext]_<<kvars, mcv>>
=============================================================================
