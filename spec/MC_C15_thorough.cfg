SPECIFICATION MCSpec
CONSTANTS
  MaxTicksS = 3
  MaxChanges = 1
  MaxQ = 2
  Fields = {"current_usage", "swap_max", "effective_swap_free", "effective_swap_util_ppm", "memory_protection", "average_usage", "io_cost_rate", "pg_scan_rate"}
INVARIANTS NoStaleArchive RawExact
PROPERTIES CacheOnlyGrows FreshNextTick StableInTick
CHECK_DEADLOCK FALSE
