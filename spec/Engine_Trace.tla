--------------------------- MODULE Engine_Trace ---------------------------
(* Stage B for C02 C05 C06 C11 C13: a trace recorded from the real engine     *)
(* (engine_driver.cpp) is accepted iff it is a behaviour of Engine.tla.  Many  *)
(* executions are concatenated; "Reset" starts a new one.  The invariants of   *)
(* stage S are evaluated on every state of the trace as well.                  *)
EXTENDS Engine, Json, IOUtils

VARIABLE l   \* next line of the trace to consume
tvars == <<vars, l>>

TraceLog == ndJsonDeserialize(IOEnv.TRACE)
N == Len(TraceLog)
Ev == TraceLog[l]

IsEv(name) == l <= N /\ Ev.e = name
Consume == l' = l + 1

SeqToSet(s) == {s[i] : i \in DOMAIN s}
WorldOf(ws) == {[path |-> ws[i].path, tags |-> SeqToSet(ws[i].tags)] : i \in DOMAIN ws}
HooksOf(hs) == [i \in DOMAIN hs |-> [id |-> hs[i].id, pats |-> SeqToSet(hs[i].pats)]]
UnitOf(u) == [rulesets |-> u.rulesets, hooks |-> HooksOf(u.hooks)]

TraceInit == Init /\ l = 1 /\ TLCSet(1, 0)

\* a new execution starts: everything back to the initial state except live objects, which
\* belong to the process (plugin objects of the previous execution die after its last event)
TReset ==
  /\ IsEv("Reset") /\ Consume
  /\ now' = 0 /\ phase' = "boot"
  /\ defs' = <<>> /\ st' = <<>> /\ bases' = <<>> /\ insts' = <<>>
  /\ hooks' = <<>> /\ world' = {}
  /\ agenda' = <<>> /\ cur' = [fired |-> 0, gstop |-> FALSE]
  /\ ctx' = NullCtx /\ invoking' = 0
  /\ uuidCtr' = 0 /\ uuidMap' = <<>> /\ nextRk' = 1
  /\ pend' = <<>> /\ cgVisited' = {}
  /\ stats' = [added |-> 0, fired |-> 0] /\ tickFired' = 0 /\ lastRet' = 0
  /\ tlog' = <<>> /\ tpre' = <<>> /\ lastStop' = <<>> /\ ops' = <<>>
  /\ UNCHANGED live

TInit == IsEv("Init") /\ Consume /\ PluginInitCg(Ev.serial, Ev.id, Ev.cg)
TDtor == IsEv("Dtor") /\ Consume /\ PluginDtor(Ev.serial)

\* events that carry no engine state (hook object life cycle is checked by KillAction)
TEnd == IsEv("EndScenario") /\ Consume /\ Shutdown
TSkip == /\ l <= N /\ Ev.e \in {"HookInit", "HookGone"}
         /\ Consume /\ UNCHANGED vars

TBoot == /\ IsEv("Boot") /\ Consume
         /\ Ev.ok = TRUE
         /\ Install(Ev.cfg, HooksOf(Ev.hooks), Ev.t, WorldOf(Ev.world))

TWorld == IsEv("World") /\ Consume /\ WorldSet(WorldOf(Ev.world))

TDropAdd == IsEv("DropAdd") /\ Consume /\ DropAdd(Ev.tag, UnitOf(Ev.unit), Ev.ok)
TDropRemove == IsEv("DropRemove") /\ Consume /\ DropRemove(Ev.tag)

TStat == /\ IsEv("Stat") /\ Consume
         /\ Ev.added = stats.added /\ Ev.fired = stats.fired
         /\ UNCHANGED vars

TProbe == IsEv("HookProbe") /\ Consume /\ HookProbe(Ev.p, Ev.hook)

TTickBegin == IsEv("TickBegin") /\ Consume /\ TickBegin(Ev.t)
TTickEnd == IsEv("TickEnd") /\ Consume /\ Ev.t = now /\ TickEnd

TPrerun == IsEv("Prerun") /\ Consume /\ Prerun(Ev.serial)

TRun ==
  /\ IsEv("Run") /\ Consume
  /\ Ev.t = now + Ev.adv
  /\ \/ /\ Ev.role = "det"
        /\ DetRun(Ev.serial, Ev.ret, Ev.adv, Ev.ctx, Ev.hasRs)
     \/ /\ Ev.role = "act"
        /\ ActRun(Ev.serial, Ev.ret, Ev.adv, Ev.ctx, Ev.hasRs)

TSilent == Silent /\ UNCHANGED l

TraceNext ==
  \/ TReset \/ TEnd \/ TInit \/ TDtor \/ TSkip \/ TBoot \/ TWorld \/ TDropAdd \/ TDropRemove
  \/ TStat \/ TProbe \/ TTickBegin \/ TTickEnd \/ TPrerun \/ TRun \/ TSilent

TraceSpec == TraceInit /\ [][TraceNext]_tvars

\* Acceptance: the highest line consumed over all explored states (register 1, updated by the
\* constraint) must be the whole trace.  The checker reads MAXL from the output on rejection.
TraceProgress == TLCSet(1, IF TLCGet(1) < l THEN l ELSE TLCGet(1))
TraceAccepted ==
  /\ PrintT(<<"MAXL", TLCGet(1), "OF", N>>)
  /\ TLCGet(1) = N + 1
=============================================================================
