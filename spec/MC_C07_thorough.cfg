SPECIFICATION MCSpec
CONSTANTS
  MCShapes <- ShapeTiny
  MCPats <- PatsStar
  MCHooks <- HooksTwo
  MCFlags <- FlagsRec
  MCAttrs <- AttrLite
  MCPlugins = {"kill_by_memory_size_or_growth"}
  MaxTicksK = 3
  TimeoutsK = {0, 2}
  MaxOpens = 1
  EnvEdits = TRUE
  MidRun = "no"
INVARIANTS Containment OrderRespected NoDescentBelowOomGroup UnpopulatedNeverAttempted DryIsPure NoSignalWhileHookOutstanding AtMostOneInvocation OneFirePerVictim RetMapping NoFireAfterWindow
CHECK_DEADLOCK FALSE
