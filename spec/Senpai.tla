------------------------------- MODULE Senpai -------------------------------
(***************************************************************************)
(* C18: Senpai only writes memory.high / memory.high.tmp / memory.reclaim   *)
(* of matched cgroups (plus system swappiness, restored within the tick);   *)
(* every limit it writes is the current usage (start / restart of tracking) *)
(* or an adjusted value within floor and ceiling; in immediate-backoff mode *)
(* it reclaims at most max_probe x (usage - floor) and only under its       *)
(* pressure and swap guards; state is keyed by cgroup identity.             *)
(*                                                                          *)
(* Sizes are in pages (4 KiB), pressure totals in microseconds, pressure    *)
(* averages in 1/100 %, ratios as fractions num/den.  The control law's     *)
(* multiplicative factor is left free on purpose: only its direction and    *)
(* its documented caps (max_probe, max_backoff) are fixed.                  *)
(***************************************************************************)
EXTENDS Integers, Sequences, FiniteSets, TLC

VARIABLES
  scfg,     \* parameters
  track,    \* id -> [limit, lastTotal, cumul, ticks]
  feat,     \* [reclaim, hightmp] in {"unknown", "yes", "no"}: sticky once learnt
  cgs,      \* this tick: matched cgroups, Seq of records in increasing id order
  sysS,     \* [swaptotal, swappiness]
  pos,      \* index of the cgroup being processed (0 = outside a tick)
  step,     \* sub-step inside one cgroup
  pend,     \* what the current cgroup's step still has to write
  swp,      \* swappiness currently written by Senpai ("" = untouched / restored)
  gone      \* paths of matched cgroups removed in the middle of the current tick (after they were listed)

sv == <<scfg, track, feat, cgs, sysS, pos, step, pend, swp, gone>>

Min2(a, b) == IF a <= b THEN a ELSE b
Max2(a, b) == IF a >= b THEN a ELSE b
Inf == 2000000000

Cur == cgs[pos]
\* reclaimable = file cache + what can still be swapped out
Reclaimable(c) ==
  c.fileCache + (IF sysS.swaptotal > 0 /\ sysS.swappiness > 0 /\ c.effSwapFree > 0 THEN Min2(c.effSwapFree, c.anon) ELSE 0)
\* floor: unreclaimable usage + limit_min, at least memory.min
Floor(c) == Max2(scfg.limitMin + (c.usage - Reclaimable(c)), c.memMin)
\* ceiling: MemTotal, usage + limit_max, memory.high (only when memory.high.tmp exists), memory.max
Ceil(c) ==
  LET a == Min2(scfg.memTotal, scfg.limitMax + c.usage)
      b == IF feat.hightmp = "yes" THEN Min2(a, c.memHigh) ELSE a
  IN Min2(b, c.memMax)
Clamp(c, x) == Max2(Floor(c), Min2(Ceil(c), x))
HighFile == IF feat.hightmp = "yes" THEN "memory.high.tmp" ELSE "memory.high"

SInit == /\ scfg = [mode |-> "none"] /\ track = <<>> /\ feat = [reclaim |-> "unknown", hightmp |-> "unknown"]
         /\ cgs = <<>> /\ sysS = [swaptotal |-> 0, swappiness |-> 0] /\ pos = 0 /\ step = "idle" /\ pend = <<>> /\ swp = "" /\ gone = {}
SReset(cfg) == /\ scfg' = cfg /\ track' = <<>> /\ feat' = [reclaim |-> "unknown", hightmp |-> "unknown"]
               /\ cgs' = <<>> /\ sysS' = [swaptotal |-> 0, swappiness |-> 0] /\ pos' = 0 /\ step' = "idle" /\ pend' = <<>> /\ swp' = "" /\ gone' = {}

\* ---------------------------------------------------------------- what one cgroup's turn may write
\* normal mode: decide from the tracked state what this turn does; returns the pending write list
\*   <<"track">>     : write usage to memory.high[.tmp]  (new, re-created or externally changed)
\*   <<"adjust", lo, hi>> : write Clamp(x) for some lo <= x <= hi
\*   <<>>            : count down, nothing written
NormalPlan(c) ==
  IF c.id \notin DOMAIN track THEN <<"track">>
  ELSE LET s == track[c.id] IN
       IF c.limitFile # s.limit THEN <<"track">>
       ELSE LET cum == s.cumul + (c.total - s.lastTotal) IN
            IF cum >= scfg.pressureUs
            THEN <<"adjust", s.limit, s.limit + (s.limit * scfg.maxBackoff.num) \div scfg.maxBackoff.den + 1>>
            ELSE IF s.ticks > 0 THEN <<>>
            ELSE <<"adjust", s.limit - (s.limit * scfg.maxProbe.num) \div scfg.maxProbe.den - 1, s.limit>>

\* immediate backoff: guards, then the amount
PressureOk(c) == /\ Max2(c.memSome10, c.memSome60) * scfg.memPct.den < scfg.memPct.num * 100
                 /\ Max2(c.ioSome10, c.ioSome60) * scfg.ioPct.den < scfg.ioPct.num * 100
SwapOk(c) == \/ ~scfg.swapValidation
             \/ sysS.swaptotal = 0 \/ sysS.swappiness = 0 \/ c.effSwapMax = 0
             \/ c.swapUtilPpm * scfg.swapThr.den < scfg.swapThr.num * 1000000
ImmediatePlan(c) ==
  IF c.id \notin DOMAIN track THEN <<"trackNoWrite">>
  ELSE IF track[c.id].ticks > 0 THEN <<>>
  ELSE IF PressureOk(c) /\ SwapOk(c) /\ c.usage > Floor(c)
       THEN <<"reclaim", ((c.usage - Floor(c)) * scfg.maxProbe.num) \div scfg.maxProbe.den>>
       ELSE <<"quiet">>

\* ---------------------------------------------------------------- actions
TickBegin(cs, sysv) ==
  /\ pos = 0
  /\ cgs' = cs /\ sysS' = sysv
  /\ pos' = (IF cs = <<>> THEN 0 ELSE 1) /\ step' = (IF cs = <<>> THEN "idle" ELSE "plan") /\ pend' = <<>> /\ swp' = ""
  \* state of cgroups that no longer match (removed or re-created: new identity) is dropped
  /\ track' = [i \in {c \in DOMAIN track : \E k \in DOMAIN cs : cs[k].id = c} |-> track[i]]
  /\ gone' = {}
  /\ UNCHANGED <<scfg, feat>>

Learn(c) == [reclaim |-> IF feat.reclaim = "unknown" /\ scfg.mode = "immediate" THEN (IF c.hasReclaim THEN "yes" ELSE "no") ELSE feat.reclaim,
             hightmp |-> IF feat.hightmp = "unknown" THEN (IF c.hasHighTmp THEN "yes" ELSE "no") ELSE feat.hightmp]

\* silent: work out what this cgroup's turn does
Plan ==
  /\ pos > 0 /\ step = "plan"
  /\ feat' = Learn(Cur)
  /\ pend' = IF scfg.mode = "normal" THEN NormalPlan(Cur) ELSE ImmediatePlan(Cur)
  /\ step' = "do"
  /\ UNCHANGED <<scfg, track, cgs, sysS, pos, swp, gone>>

Advance == /\ pos' = IF pos < Len(cgs) THEN pos + 1 ELSE 0
           /\ step' = IF pos < Len(cgs) THEN "plan" ELSE "idle"
           /\ pend' = <<>>

NewState(c, limit) == [limit |-> limit, lastTotal |-> c.total, cumul |-> 0, ticks |-> scfg.interval]
SetTrack(id, s) == [i \in DOMAIN track \cup {id} |-> IF i = id THEN s ELSE track[i]]

\* silent steps that write nothing
NoWrite ==
  /\ pos > 0 /\ step = "do" /\ swp = ""
  /\ \/ /\ pend = <<>>
        /\ track' = IF scfg.mode = "normal"
                    THEN SetTrack(Cur.id, [track[Cur.id] EXCEPT !.lastTotal = Cur.total,
                                                             !.cumul = @ + (Cur.total - track[Cur.id].lastTotal),
                                                             !.ticks = @ - 1])
                    ELSE SetTrack(Cur.id, [track[Cur.id] EXCEPT !.ticks = @ - 1])
     \/ /\ pend = <<"trackNoWrite">> /\ track' = SetTrack(Cur.id, NewState(Cur, 0))
     \/ /\ pend = <<"quiet">> /\ UNCHANGED track
  /\ Advance
  /\ UNCHANGED <<scfg, feat, cgs, sysS, swp, gone>>

\* observable: a control file of cgroup `path` is written
Write(path, file, v) ==
  /\ pos > 0 /\ step = "do" /\ path = Cur.path
  /\ \/ \* (re)start tracking: the limit is the current usage
        /\ pend = <<"track">> /\ file = HighFile /\ v = Cur.usage
        /\ track' = SetTrack(Cur.id, NewState(Cur, v))
        /\ Advance /\ UNCHANGED swp
     \/ \* adjusted limit: page aligned (unit), clamped between floor and ceiling
        /\ pend # <<>> /\ pend[1] = "adjust" /\ file = HighFile
        /\ Clamp(Cur, pend[2]) <= v /\ v <= Clamp(Cur, pend[3])
        /\ track' = SetTrack(Cur.id, [NewState(Cur, v) EXCEPT !.ticks = scfg.interval])
        /\ Advance /\ UNCHANGED swp
     \/ \* immediate backoff with memory.reclaim: at most max_probe x (usage - floor), within a page of it
        /\ pend # <<>> /\ pend[1] = "reclaim" /\ feat.reclaim = "yes" /\ file = "memory.reclaim"
        /\ (scfg.modulate => swp # "")
        /\ pend[2] - 1 <= v /\ v <= pend[2]
        /\ track' = SetTrack(Cur.id, [track[Cur.id] EXCEPT !.ticks = scfg.interval])
        /\ IF scfg.modulate THEN (step' = "restore" /\ UNCHANGED <<pos, pend>>) ELSE Advance
        /\ UNCHANGED swp
     \/ \* without memory.reclaim: poke memory.high[.tmp] just below usage ...
        /\ pend # <<>> /\ pend[1] = "reclaim" /\ feat.reclaim = "no" /\ file = HighFile
        /\ (scfg.modulate => swp # "")
        /\ Cur.usage - pend[2] <= v /\ v <= Cur.usage - pend[2] + 1
        /\ pend' = <<"resetmax">> /\ UNCHANGED <<track, pos, step, swp>>
     \/ \* ... and reset it to max in the same tick
        /\ pend = <<"resetmax">> /\ file = HighFile /\ v = Inf
        /\ track' = SetTrack(Cur.id, [track[Cur.id] EXCEPT !.ticks = scfg.interval])
        /\ IF scfg.modulate THEN (step' = "restore" /\ UNCHANGED <<pos, pend>>) ELSE Advance
        /\ UNCHANGED swp
  /\ UNCHANGED <<scfg, feat, cgs, sysS, gone>>

\* observable: a control-file write of the current cgroup failed: the cgroup is dropped from tracking (it
\* is picked up afresh on a later tick); a lowered swappiness is still restored
WriteFailed(path, file) ==
  /\ pos > 0 /\ step = "do" /\ path = Cur.path /\ pend # <<>>
  /\ pend[1] \in {"track", "adjust", "reclaim", "resetmax"}
  /\ file = (IF pend[1] = "reclaim" /\ feat.reclaim = "yes" THEN "memory.reclaim" ELSE HighFile)
  /\ (pend[1] = "reclaim" /\ scfg.modulate => swp # "")
  /\ track' = [i \in DOMAIN track \ {Cur.id} |-> track[i]]
  /\ IF swp # "" THEN (step' = "restore" /\ UNCHANGED <<pos, pend>>) ELSE Advance
  /\ UNCHANGED <<scfg, feat, cgs, sysS, swp, gone>>

\* observable (environment): a matched cgroup is removed in the middle of the tick, after it was listed.  Nothing
\* of it can be read or written from then on.
Vanish(path) == /\ gone' = gone \cup {path}
                /\ UNCHANGED <<scfg, track, feat, cgs, sysS, pos, step, pend, swp>>

\* silent: the rest of the turn of a cgroup that is gone writes nothing; the cgroup is not tracked any more
\* (its identity never comes back), a lowered swappiness is still restored.  What was learnt about the kernel
\* is either what a living cgroup shows or nothing: a failed probe on a dead cgroup is no evidence.
SkipGone ==
  /\ pos > 0 /\ step \in {"plan", "do"} /\ Cur.path \in gone
  /\ feat' \in {feat, Learn(Cur)}
  /\ track' = [i \in DOMAIN track \ {Cur.id} |-> track[i]]
  /\ IF swp # "" THEN (step' = "restore" /\ UNCHANGED <<pos, pend>>) ELSE Advance
  /\ UNCHANGED <<scfg, cgs, sysS, swp, gone>>

\* observable: system swappiness is written (only with modulate_swappiness, lowered before the reclaim, restored after)
Swappiness(v) ==
  /\ pos > 0 /\ scfg.modulate
  /\ \/ /\ step = "do" /\ pend # <<>> /\ pend[1] = "reclaim" /\ swp = ""
        /\ 0 <= v /\ v <= sysS.swappiness
        /\ swp' = "lowered" /\ UNCHANGED <<pos, step, pend>>
     \/ /\ step = "restore" /\ v = sysS.swappiness
        /\ swp' = "" /\ Advance
  /\ UNCHANGED <<scfg, track, feat, cgs, sysS, gone>>

TickEnd == /\ pos = 0 /\ step = "idle" /\ swp = "" /\ UNCHANGED sv

SSilent == Plan \/ NoWrite \/ SkipGone

\* ---------------------------------------------------------------- properties (over the state)
\* swappiness is never left lowered outside a cgroup's turn
SwappinessRestored == pos = 0 => swp = ""
\* state is keyed by identity: no tracked id that is not a matched cgroup of the current tick
KeyedByIdentity == pos = 0 /\ cgs # <<>> => \A i \in DOMAIN track : \E k \in DOMAIN cgs : cgs[k].id = i
=============================================================================
