------------------------------ MODULE AsyncLog ------------------------------
(***************************************************************************)
(* C20: the asynchronous logger.  Producers enqueue under the lock into the *)
(* current queue unless the queued bytes would exceed the cap (then the     *)
(* line is dropped and counted); the flusher swaps the queues under the     *)
(* lock, writes the swapped-out batch in order, reports the drop count and  *)
(* exits after the batch it took once stop was requested.  Silencing is a   *)
(* per-thread flag checked before the logger is reached.                    *)
(* Each action is one critical section (or one sink write) of the code.     *)
(***************************************************************************)
EXTENDS Integers, Sequences, FiniteSets, TLC

VARIABLES
  q,         \* queue producers append to: Seq of [thr, i, size]
  curSize,   \* bytes accounted in q
  dropped,   \* lines dropped since the last swap
  inflight,  \* batch the flusher is writing
  pendDisc,  \* drop count taken at the last swap, not yet reported
  running,   \* FALSE once stop was requested
  exited,    \* the flusher has left its loop
  lastRun,   \* value of `running` the flusher saw at its last swap
  sink,      \* everything written so far, in order
  reported,  \* total number of drops reported in the output
  calls,     \* calls in progress: set of [thr, i, silenced]
  hacc, hdrop  \* history: accepted lines (in order), number dropped

lv == <<q, curSize, dropped, inflight, pendDisc, running, exited, lastRun, sink, reported, calls, hacc, hdrop>>

CONSTANT Cap

Bytes(s) == LET RECURSIVE B(_) B(x) == IF x = <<>> THEN 0 ELSE Head(x).size + B(Tail(x)) IN B(s)

LInit == /\ q = <<>> /\ curSize = 0 /\ dropped = 0 /\ inflight = <<>> /\ pendDisc = 0 /\ running = TRUE /\ exited = FALSE
         /\ lastRun = TRUE /\ sink = <<>> /\ reported = 0 /\ calls = {} /\ hacc = <<>> /\ hdrop = 0

\* a thread starts / finishes a logging call; a silenced thread's call never reaches the logger
Call(t, i, silenced) ==
  /\ ~\E c \in calls : c.thr = t
  /\ calls' = calls \cup {[thr |-> t, i |-> i, silenced |-> silenced, done |-> FALSE]}
  /\ UNCHANGED <<q, curSize, dropped, inflight, pendDisc, running, exited, lastRun, sink, reported, hacc, hdrop>>
Ret(t, i) ==
  /\ \E c \in calls : c.thr = t /\ c.i = i /\ (c.silenced # c.done)      \* silenced: untouched; else accepted or dropped
  /\ calls' = {c \in calls : c.thr # t}
  /\ UNCHANGED <<q, curSize, dropped, inflight, pendDisc, running, exited, lastRun, sink, reported, hacc, hdrop>>
Pending(t, i) == \E c \in calls : c.thr = t /\ c.i = i /\ ~c.silenced /\ ~c.done
MarkDone(t, i) == calls' = {IF c.thr = t /\ c.i = i THEN [c EXCEPT !.done = TRUE] ELSE c : c \in calls}

Accept(t, i, size) ==
  /\ Pending(t, i) /\ ~exited
  /\ size + curSize <= Cap
  /\ q' = Append(q, [thr |-> t, i |-> i, size |-> size])
  /\ curSize' = curSize + size
  /\ hacc' = Append(hacc, [thr |-> t, i |-> i, size |-> size])
  /\ MarkDone(t, i)
  /\ UNCHANGED <<dropped, inflight, pendDisc, running, exited, lastRun, sink, reported, hdrop>>
Drop(t, i, size) ==
  /\ Pending(t, i)
  /\ size + curSize > Cap
  /\ dropped' = dropped + 1 /\ hdrop' = hdrop + 1
  /\ MarkDone(t, i)
  /\ UNCHANGED <<q, curSize, inflight, pendDisc, running, exited, lastRun, sink, reported, hacc>>

\* flusher: previous batch fully written and its drop count reported; woken by work or by stop
Swap(n, disc) ==
  /\ ~exited /\ lastRun /\ inflight = <<>> /\ pendDisc = 0
  /\ (q # <<>> \/ ~running)
  /\ n = Len(q) /\ disc = dropped
  /\ inflight' = q /\ q' = <<>> /\ curSize' = 0
  /\ pendDisc' = dropped /\ dropped' = 0
  /\ lastRun' = running
  /\ UNCHANGED <<running, exited, sink, reported, calls, hacc, hdrop>>
SinkWrite(t, i) ==
  /\ inflight # <<>> /\ Head(inflight).thr = t /\ Head(inflight).i = i
  /\ sink' = Append(sink, Head(inflight)) /\ inflight' = Tail(inflight)
  /\ UNCHANGED <<q, curSize, dropped, pendDisc, running, exited, lastRun, reported, calls, hacc, hdrop>>
ReportDrops(n) ==
  /\ inflight = <<>> /\ pendDisc > 0 /\ n = pendDisc
  /\ reported' = reported + n /\ pendDisc' = 0
  /\ UNCHANGED <<q, curSize, dropped, inflight, running, exited, lastRun, sink, calls, hacc, hdrop>>
\* leaves the loop after the batch taken once stop had been seen
FlusherExit ==
  /\ ~exited /\ ~lastRun /\ inflight = <<>> /\ pendDisc = 0
  /\ exited' = TRUE
  /\ UNCHANGED <<q, curSize, dropped, inflight, pendDisc, running, lastRun, sink, reported, calls, hacc, hdrop>>
Stop ==
  /\ running /\ running' = FALSE
  /\ UNCHANGED <<q, curSize, dropped, inflight, pendDisc, exited, lastRun, sink, reported, calls, hacc, hdrop>>
\* the destructor returns only after the flusher was joined
ShutdownDone == /\ ~running /\ exited /\ UNCHANGED lv

\* ---------------------------------------------------------------- properties
Idx(s, m) == {k \in DOMAIN s : s[k].thr = m.thr /\ s[k].i = m.i}
\* never written twice; written only if accepted
NoDuplicates == \A k1, k2 \in DOMAIN sink : (sink[k1].thr = sink[k2].thr /\ sink[k1].i = sink[k2].i) => k1 = k2
OnlyAccepted == \A k \in DOMAIN sink : Idx(hacc, sink[k]) # {}
\* lines of one thread appear in the order they were accepted
PerThreadFifo ==
  \A k1, k2 \in DOMAIN sink : (k1 < k2 /\ sink[k1].thr = sink[k2].thr) =>
     \A a1 \in Idx(hacc, sink[k1]), a2 \in Idx(hacc, sink[k2]) : a1 < a2
\* bounded backlog: the queue never holds more than the cap, nor does the batch being written
Bounded == curSize = Bytes(q) /\ Bytes(q) <= Cap /\ Bytes(inflight) <= Cap
\* what the statement literally asks: everything not yet written within one cap
UnwrittenWithinCap == Bytes(q) + Bytes(inflight) <= Cap
\* when shutdown has completed everything accepted is in the sink and every drop was reported
FlushedAtShutdown == exited => (Len(sink) = Len(hacc) /\ reported = hdrop /\ q = <<>>)
=============================================================================
