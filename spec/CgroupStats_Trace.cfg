SPECIFICATION TraceSpec
CONSTRAINT TraceProgress
POSTCONDITION TraceAccepted
INVARIANT NoStaleArchive
PROPERTIES CacheOnlyGrows FreshNextTick
CHECK_DEADLOCK FALSE
