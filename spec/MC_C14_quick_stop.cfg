SPECIFICATION MCSpecStop
CONSTANTS
  Names = {"a", ".h"}
  DotNames = {".h"}
  RemoveOnInvalid = TRUE
  Budget = 2
  Less <- MCLess
INVARIANTS LockDiscipline NoDotActive StartupOrder
PROPERTY ShutdownCompletes
CHECK_DEADLOCK FALSE
