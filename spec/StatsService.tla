---------------------------- MODULE StatsService ----------------------------
(***************************************************************************)
(* C19: the stats service.  Counter operations are atomic (one critical     *)
(* section each); every client connection gets at most one well-formed      *)
(* reply decided by its first byte and is then closed; the number of live   *)
(* handlers is accounted; shutdown completes.                               *)
(*                                                                          *)
(* Operations are recorded as call / return pairs; the moment an operation  *)
(* takes effect (Lin) is an internal step between the two, so a recorded    *)
(* history is accepted iff it is linearizable.                              *)
(***************************************************************************)
EXTENDS Integers, Sequences, FiniteSets, TLC

VARIABLES
  smap,     \* key -> value
  pendOps,  \* operations called and not yet returned: id -> [op, key, val, done, res]
  conns,    \* connections: id -> [state, first, replied]
  handlers, \* number of live handler threads (thread_count_)
  stopping, \* destructor has begun
  gone      \* destructor has returned

ssv == <<smap, pendOps, conns, handlers, stopping, gone>>

\* no service instance exists initially; SvcNew constructs one (a process may construct several in turn)
VInit == smap = <<>> /\ pendOps = <<>> /\ conns = <<>> /\ handlers = 0 /\ stopping = TRUE /\ gone = TRUE
SvcNew == gone /\ pendOps = <<>> /\ smap' = <<>> /\ conns' = <<>> /\ handlers' = 0 /\ stopping' = FALSE /\ gone' = FALSE /\ UNCHANGED pendOps

Get(k) == IF k \in DOMAIN smap THEN smap[k] ELSE 0
Put(m, k, v) == [x \in DOMAIN m \cup {k} |-> IF x = k THEN v ELSE m[x]]
Without(f, id) == [x \in DOMAIN f \ {id} |-> f[x]]

\* ---- API / socket operations as call - linearisation - return
OpCall(id, op, key, val) ==
  /\ id \notin DOMAIN pendOps /\ ~gone
  /\ pendOps' = Put(pendOps, id, [op |-> op, key |-> key, val |-> val, done |-> FALSE, res |-> <<>>])
  /\ UNCHANGED <<smap, conns, handlers, stopping, gone>>
\* internal: the operation takes effect atomically
Lin(id) ==
  /\ id \in DOMAIN pendOps /\ ~pendOps[id].done
  /\ LET o == pendOps[id] IN
     /\ smap' = CASE o.op = "increment" -> Put(smap, o.key, Get(o.key) + o.val)
                  [] o.op = "set" -> Put(smap, o.key, o.val)
                  [] o.op = "reset" -> [k \in DOMAIN smap |-> 0]           \* zeroes every key but keeps it
                  [] OTHER -> smap
     /\ pendOps' = Put(pendOps, id, [o EXCEPT !.done = TRUE, !.res = IF o.op = "getAll" THEN smap ELSE <<>>])
  /\ UNCHANGED <<conns, handlers, stopping, gone>>
\* res: for getAll the map the caller saw (as a function), else ignored
OpRet(id, res) ==
  /\ id \in DOMAIN pendOps /\ pendOps[id].done
  /\ (pendOps[id].op = "getAll" => res = pendOps[id].res)
  /\ pendOps' = Without(pendOps, id)
  /\ UNCHANGED <<smap, conns, handlers, stopping, gone>>

\* a completed or pending READ-ONLY operation may be withdrawn from the history (it has no effect on the map)
OpCancel(id) ==
  /\ id \in DOMAIN pendOps /\ pendOps[id].op = "getAll"
  /\ pendOps' = Without(pendOps, id)
  /\ UNCHANGED <<smap, conns, handlers, stopping, gone>>

\* ---- connections: handler threads are accounted (thread_count_), whatever the client does
HStart == handlers' = handlers + 1 /\ ~gone /\ UNCHANGED <<smap, pendOps, conns, stopping, gone>>
HEnd == handlers > 0 /\ handlers' = handlers - 1 /\ UNCHANGED <<smap, pendOps, conns, stopping, gone>>
\* error code the protocol prescribes for a request whose first byte is `first` ("" = nothing received)
ErrorFor(first) == IF first \in {"g", "r", "0"} THEN 0 ELSE 1
\* what a client saw on its connection: nReplies JSON documents (0 or 1 allowed), the error code of the reply;
\* mustReply: the client sent a terminated request and waited, so a reply is due
\* closed: the client saw the server hang up (end of file) - also the client that sent nothing, or an incomplete
\* request, and stalled past the server's receive timeout
ClientSaw(first, nReplies, wellFormed, err, mustReply, closed) ==
  /\ nReplies \in {0, 1}
  /\ closed
  /\ (mustReply => nReplies = 1)
  /\ (nReplies = 1 => wellFormed /\ err = ErrorFor(first))
  /\ UNCHANGED ssv

\* ---- shutdown
DtorBegin == ~stopping /\ stopping' = TRUE /\ UNCHANGED <<smap, pendOps, conns, handlers, gone>>
DtorEnd == stopping /\ ~gone /\ handlers = 0 /\ gone' = TRUE /\ UNCHANGED <<smap, pendOps, conns, handlers, stopping>>

\* ---- properties
HandlerAccounting == handlers >= 0
NoHandlerAfterShutdown == gone => handlers = 0
=============================================================================
