SPECIFICATION MCSpec
CONSTANTS
  MaxSamples = 4
  Kinds = {"pressure_above", "pressure_rising_beyond", "memory_above", "memory_reclaim"}
  Durs = {0, 1, 2}
  DTs = {1, 999, 1000, 1001, 2500}
INVARIANTS VerdictIsDoc SingleMissRestarts
CHECK_DEADLOCK FALSE
