---------------------------- MODULE MC_Detectors ----------------------------
(* Stage S for C08: every history of up to MaxSamples samples with values just below / at / just  *)
(* above the threshold, irregular tick spacing around whole seconds, durations 0..2, one or two   *)
(* matched cgroups appearing and disappearing.                                                    *)
EXTENDS Detectors
CONSTANTS MaxSamples, Kinds, Durs, DTs

Thr == 80
PVals == {0, 7999, 8000, 8001}           \* 1/100 %
UVals == {0, 79, 80, 81}
PgVals == {0, 5, 6}
Cg(p10, p60, u, pg) == [p10 |-> p10, p60 |-> p60, p300 |-> 0, usage |-> u, pgscan |-> pg, dying |-> 0]
Sys0 == [total |-> 100, used |-> 50, bps |-> 0]

Cfg(kind, dur, ratio) == [kind |-> kind, thr |-> Thr, dur |-> dur, ratioPct |-> ratio, anon |-> FALSE, negate |-> FALSE,
                          lte |-> FALSE, count |-> 0, pct |-> 50, bps |-> 0]
MCInit == /\ DInit
MCStart == /\ dcfg.kind = "none"
           /\ \E k \in Kinds, d \in Durs, r \in {85, 100} : DReset(Cfg(k, d, r), 1000000)
OneCg == {<<Cg(a, b, u, g)>> : a \in PVals, b \in PVals, u \in UVals, g \in PgVals}
Samples ==
  IF dcfg.kind = "pressure_above" THEN {<<>>} \cup {<<Cg(a, 0, 0, 0)>> : a \in PVals} \cup {<<Cg(8001, 0, 0, 0), Cg(7999, 9000, 0, 0)>>}
  ELSE IF dcfg.kind = "pressure_rising_beyond" THEN {<<Cg(a, b, 0, 0)>> : a \in {6800, 7999, 8001, 9500}, b \in {7999, 8001}}
  ELSE IF dcfg.kind = "memory_above" THEN {<<>>} \cup {<<Cg(0, 0, u, 0)>> : u \in UVals} \cup {<<Cg(0, 0, 79, 0), Cg(0, 0, 81, 0)>>}
  ELSE {<<Cg(0, 0, 0, g)>> : g \in PgVals} \cup {<<Cg(0, 0, 0, 3), Cg(0, 0, 0, 3)>>}
MCTick == /\ dcfg.kind # "none" /\ Len(dhist) < MaxSamples
          /\ \E dt \in DTs, cs \in Samples, ret \in {"CONTINUE", "STOP"} : DTick(dnow + dt, cs, Sys0, ret)
MCNext == MCStart \/ MCTick
MCSpec == MCInit /\ [][MCNext]_dvars
=============================================================================
