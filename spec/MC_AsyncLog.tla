----------------------------- MODULE MC_AsyncLog -----------------------------
(* Stage S for C20: two producers, message sizes 1 / Cap/2 / Cap, the sink arbitrarily slow (the   *)
(* flusher's steps are interleaved freely), stop requested once the producers are done.            *)
EXTENDS AsyncLog
CONSTANTS Threads, MsgsPerThread, Sizes
VARIABLE nexti
mv == <<lv, nexti>>
MCInit == LInit /\ nexti = [t \in Threads |-> 1]
Producer ==
  \/ \E t \in Threads, sil \in BOOLEAN : nexti[t] <= MsgsPerThread /\ running /\ Call(t, nexti[t], sil) /\ UNCHANGED nexti
  \/ \E c \in calls, s \in Sizes : (Accept(c.thr, c.i, s) \/ Drop(c.thr, c.i, s)) /\ UNCHANGED nexti
  \/ \E c \in calls : Ret(c.thr, c.i) /\ nexti' = [nexti EXCEPT ![c.thr] = @ + 1]
Flusher ==
  \/ (Swap(Len(q), dropped) /\ UNCHANGED nexti)
  \/ (inflight # <<>> /\ SinkWrite(Head(inflight).thr, Head(inflight).i) /\ UNCHANGED nexti)
  \/ (ReportDrops(pendDisc) /\ UNCHANGED nexti)
  \/ (FlusherExit /\ UNCHANGED nexti)
Destructor == calls = {} /\ (\A t \in Threads : nexti[t] > MsgsPerThread) /\ Stop /\ UNCHANGED nexti
MCNext == Producer \/ Flusher \/ Destructor
MCSpec == MCInit /\ [][MCNext]_mv /\ WF_mv(Flusher) /\ WF_mv(Destructor) /\ WF_mv(Producer)
\* liveness: once stop is requested the flusher drains everything and exits
FlushOnShutdown == (~running) ~> exited
=============================================================================
