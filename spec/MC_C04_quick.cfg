SPECIFICATION MCSpec
CONSTANTS
  MCShapes <- ShapeTiny
  MCPats <- PatsStar
  MCHooks <- HooksTwo
  MCFlags <- FlagsDry
  MCAttrs <- AttrLite
  MCPlugins = {"kill_by_memory_size_or_growth"}
  MaxTicksK = 2
  TimeoutsK = {2}
  MaxOpens = 1
  EnvEdits = FALSE
  MidRun = "no"
INVARIANTS Containment OrderRespected NoDescentBelowOomGroup UnpopulatedNeverAttempted DryIsPure NoSignalWhileHookOutstanding AtMostOneInvocation OneFirePerVictim RetMapping NoFireAfterWindow
CHECK_DEADLOCK FALSE
