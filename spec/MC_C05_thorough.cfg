SPECIFICATION MCSpec
CONSTANTS
  MCConfigs <- CfgPlain1
  MCUnits <- NoUnits
  MCTags = {}
  MaxTicks = 4
  MaxOps = 0
  DTs = {0, 999, 1000, 1001, 2000}
  Advs = {0, 1}
  DetRets = {"CONTINUE", "STOP"}
  ActRets = {"CONTINUE", "STOP", "ASYNC"}
  ProbePaths = {}
INVARIANTS TypeOK AllRunOnce ChainRule NoActionInPause PauseIsDeclared FreshUuids NoUseAfterDestroy DropinOrderOk AddedStatOk HookOrderOk
CHECK_DEADLOCK FALSE
