----------------------------- MODULE MC_Engine -----------------------------
(* Stage S for C02 C05 C06 C11 C13: the engine design against its declarative *)
(* properties, with every plugin return value, clock advance, drop-in         *)
(* operation and cgroup-world change left to TLC's nondeterminism.            *)
EXTENDS Engine

CONSTANTS MCConfigs,   \* set of [cfg, hooks, worlds]
          MCUnits,     \* set of drop-in units
          MCTags,      \* set of tags
          MaxTicks, MaxOps, DTs, Advs, DetRets, ActRets, ProbePaths

VARIABLES mcSerial, mcTicks, mcOps, mcWorlds
mcvars == <<mcSerial, mcTicks, mcOps, mcWorlds>>

P(id, delay) == [id |-> id, serial |-> 0, delay |-> delay, cg |-> ""]
G(name, dets) == [name |-> name, dets |-> dets]
R(name, groups, acts, delay, timeout, pat, filter, dod, pd, pa) ==
  [name |-> name, tag |-> "", kind |-> "base", groups |-> groups, acts |-> acts,
   delay |-> delay, timeout |-> timeout, pat |-> pat, filter |-> filter,
   dod |-> dod, pd |-> pd, pa |-> pa, target |-> NoPath]

\* ---------- scenario families -------------------------------------------
\* plain engine: 2 rulesets, 2 groups, own-delay action, zero-delay ruleset
CfgPlain ==
  {[cfg |-> << R("r0", <<G("g0", <<P("r0.g0.d0", -1), P("r0.g0.d1", -1)>>), G("g1", <<P("r0.g1.d0", -1)>>)>>,
                  <<P("r0.a0", -1), P("r0.a1", 1)>>, 2, 1, <<>>, "", FALSE, FALSE, FALSE),
               R("r1", <<G("g0", <<P("r1.g0.d0", -1)>>)>>, <<P("r1.a0", -1)>>, 0, 0, <<>>, "", FALSE, FALSE, FALSE) >>,
    hooks |-> <<>>, worlds |-> {{}}]}

CfgPlain1 ==
  {[cfg |-> << R("r0", <<G("g0", <<P("r0.g0.d0", -1)>>), G("g1", <<P("r0.g1.d0", -1)>>)>>,
                  <<P("r0.a0", -1), P("r0.a1", 1)>>, 2, 1, <<>>, "", FALSE, FALSE, FALSE) >>,
    hooks |-> <<>>, worlds |-> {{}}]}

\* async continuation: 3-action chain, zero delays, a second ruleset pausing independently
CfgAsync ==
  {[cfg |-> << R("r0", <<G("g0", <<P("r0.g0.d0", -1)>>)>>,
                  <<P("r0.a0", -1), P("r0.a1", -1), P("r0.a2", -1)>>, 0, 2, <<>>, "", FALSE, FALSE, FALSE),
               R("r1", <<G("g0", <<P("r1.g0.d0", -1)>>)>>, <<P("r1.a0", -1)>>, 0, 0, <<>>, "", FALSE, FALSE, FALSE) >>,
    hooks |-> <<>>, worlds |-> {{}}]}

\* drop-ins: permissions, disable-on-drop-in, two-ruleset units, hooks
CfgDrop ==
  {[cfg |-> << R("r0", <<G("g0", <<P("r0.g0.d0", -1)>>)>>, <<P("r0.a0", -1)>>, 0, 0, <<>>, "", TRUE, TRUE, TRUE),
               R("r1", <<G("g0", <<P("r1.g0.d0", -1)>>)>>, <<P("r1.a0", -1)>>, 0, 0, <<>>, "", FALSE, FALSE, TRUE) >>,
    hooks |-> << [id |-> "hb", pats |-> {<<"a">>}] >>, worlds |-> {{}}]}
UnitsDrop ==
  { [rulesets |-> << [name |-> "r0", groups |-> <<G("g0", <<P("u1.d", -1)>>)>>, acts |-> <<>>] >>, hooks |-> <<>>],
    [rulesets |-> << [name |-> "r1", groups |-> <<>>, acts |-> <<P("u2.a", -1)>>],
                     [name |-> "r0", groups |-> <<>>, acts |-> <<P("u2.b", -1)>>] >>,
     hooks |-> << [id |-> "h2", pats |-> {<<"a", "*">>}] >>],
    [rulesets |-> << [name |-> "r1", groups |-> <<G("g0", <<P("u3.d", -1)>>)>>, acts |-> <<>>] >>, hooks |-> <<>>],
    [rulesets |-> << [name |-> "nope", groups |-> <<>>, acts |-> <<P("u4.a", -1)>>] >>, hooks |-> <<>>] }

\* ruleset-level cgroup: instances appear, vanish, get (un)tagged
W(paths) == {[path |-> p, tags |-> {"f"}] : p \in paths}
CfgCg ==
  {[cfg |-> << R("r0", <<G("g0", <<P("r0.g0.d0", -1)>>)>>, <<P("r0.a0", 1)>>, 1, 0, <<"a", "*">>, "f", FALSE, FALSE, FALSE) >>,
    hooks |-> <<>>,
    worlds |-> { W({}), W({<<"a","x">>}), W({<<"a","x">>, <<"a","y">>}), W({<<"a","y">>, <<"b">>}),
                 {[path |-> <<"a","x">>, tags |-> {}], [path |-> <<"a","y">>, tags |-> {"f"}]} }]}

\* ---------------------------------------------------------------------------
NoUnits == {}
MCInit == Init /\ mcSerial = 1 /\ mcTicks = 0 /\ mcOps = 0 /\ mcWorlds = {}

Announce(ids) ==
  /\ pend = <<>>
  /\ pend' = [i \in DOMAIN ids |-> [serial |-> mcSerial + i - 1, id |-> ids[i]]]
  /\ live' = live \cup {mcSerial + i - 1 : i \in DOMAIN ids}
  /\ mcSerial' = mcSerial + Len(ids)
  /\ UNCHANGED <<now, phase, defs, st, bases, insts, hooks, world, agenda, cur, ctx,
                 invoking, uuidCtr, uuidMap, nextRk, cgVisited, stats, tickFired, lastRet,
                 tlog, tpre, lastStop, ops, mcTicks, mcOps, mcWorlds>>

MCBoot ==
  \E c \in MCConfigs :
    \/ /\ phase = "boot" /\ pend = <<>>
       /\ Announce(FlattenSeq([i \in DOMAIN c.cfg |-> PlugIds(c.cfg[i])]))
    \/ /\ phase = "boot" /\ pend # <<>>
       /\ \E w \in c.worlds : Install(c.cfg, c.hooks, 1000000, w)
       /\ mcWorlds' = c.worlds
       /\ UNCHANGED <<mcSerial, mcTicks, mcOps>>

MCEnv ==
  \/ /\ phase = "idle" /\ pend = <<>>
     /\ \E w \in mcWorlds : w # world /\ WorldSet(w)
     /\ UNCHANGED mcvars
  \/ /\ phase = "idle" /\ mcOps < MaxOps
     /\ \E tag \in MCTags, u \in MCUnits :
          \/ /\ UnitOk(u) /\ pend = <<>>
             /\ Announce(FlattenSeq([j \in DOMAIN u.rulesets |-> MergedPendIds(u.rulesets[j])]))
          \/ /\ UnitOk(u) /\ pend # <<>>
             /\ DropAdd(tag, u, TRUE)
             /\ mcOps' = mcOps + 1 /\ UNCHANGED <<mcSerial, mcTicks, mcWorlds>>
          \/ /\ ~UnitOk(u) /\ pend = <<>>
             /\ DropAdd(tag, u, FALSE)
             /\ mcOps' = mcOps + 1 /\ UNCHANGED <<mcSerial, mcTicks, mcWorlds>>
  \/ /\ phase = "idle" /\ mcOps < MaxOps /\ pend = <<>>
     /\ \E tag \in MCTags : DropRemove(tag)
     /\ mcOps' = mcOps + 1 /\ UNCHANGED <<mcSerial, mcTicks, mcWorlds>>

MCTick ==
  \/ /\ mcTicks < MaxTicks
     /\ \E dt \in DTs : TickBegin(now + dt)
     /\ mcTicks' = mcTicks + 1 /\ UNCHANGED <<mcSerial, mcOps, mcWorlds>>
  \/ /\ phase = "tick" /\ agenda # <<>> /\ Head1.op \in {"preD", "preA"}
     /\ LET d == defs[Head1.rk] IN
          Prerun(IF Head1.op = "preD" THEN d.groups[Head1.g].dets[Head1.k].serial ELSE d.acts[Head1.k].serial)
     /\ UNCHANGED mcvars
  \/ /\ phase = "tick" /\ agenda # <<>> /\ Head1.op = "det"
     /\ \E ret \in DetRets, adv \in Advs :
          DetRun(defs[Head1.rk].groups[Head1.g].dets[Head1.k].serial, ret, adv,
                 [ctx EXCEPT !.uuid = IF ctx.uuid \in DOMAIN uuidMap THEN uuidMap[ctx.uuid] ELSE ctx.uuid],
                 invoking # 0)
     /\ UNCHANGED mcvars
  \/ /\ phase = "tick" /\ agenda # <<>> /\ Head1.op = "act"
     /\ \E ret \in ActRets, adv \in Advs :
          ActRun(defs[Head1.rk].acts[Head1.k].serial, ret, adv,
                 [ctx EXCEPT !.uuid = IF ctx.uuid \in DOMAIN uuidMap THEN uuidMap[ctx.uuid] ELSE ctx.uuid],
                 TRUE)
     /\ UNCHANGED mcvars
  \/ /\ phase = "tick" /\ agenda # <<>> /\ Head1.op = "cg" /\ pend = <<>>
     /\ \E p \in Matching(Head1.rk) \ cgVisited : p \notin DOMAIN insts[Head1.rk]
     /\ Announce(PlugIds(defs[Head1.rk]))
  \/ Silent /\ UNCHANGED mcvars
  \/ TickEnd /\ UNCHANGED mcvars

MCNext == MCBoot \/ MCEnv \/ MCTick

MCSpec == MCInit /\ [][MCNext]_<<vars, mcvars>>

\* hook priority (C13 / C07): checked as a state predicate on every reachable hook list
HookOrderOk ==
  \A i, j \in DOMAIN hooks : (i < j /\ hooks[i].tag = "") => hooks[j].tag = ""

\* the state graph is finite: nothing to constrain beyond the budgets above
MCConstraint == mcTicks <= MaxTicks /\ mcOps <= MaxOps

\* ---------------------------------------------------------------------------
\* Vacuity guards.  Each witness is a situation a property talks about; the checker runs a
\* reduced configuration with one worker, accumulates the names of the witnesses seen in
\* register 2 and fails (as a model failure, not as a violation) if a required one is missing.
TickDone == phase = "idle" /\ tlog # <<>>
ActsOf(rk) == CallsOf("act", rk)
DetsOf(rk) == CallsOf("det", rk)
Witnesses ==
  (IF TickDone /\ \E rk \in EvaluatedRks : FirstFired(rk) # 0 /\ ActsOf(rk) = <<>> /\ rk \in DOMAIN tpre
                                            /\ tpre[rk].pauseUntil > 0 /\ ~tpre[rk].susp.has
   THEN {"PausedBlocksFiring"} ELSE {}) \cup
  (IF TickDone /\ \E rk \in EvaluatedRks : rk \in DOMAIN tpre /\ tpre[rk].susp.has /\ ActsOf(rk) # <<>>
   THEN {"Resumed"} ELSE {}) \cup
  (IF TickDone /\ \E rk \in EvaluatedRks : rk \in DOMAIN tpre /\ tpre[rk].susp.has /\ ActsOf(rk) # <<>> /\ FirstFired(rk) = 0
   THEN {"ResumedWithoutFiring"} ELSE {}) \cup
  (IF TickDone /\ \E rk \in EvaluatedRks : rk \in DOMAIN tpre /\ tpre[rk].susp.has /\ ActsOf(rk) # <<>> /\ FirstFired(rk) # 0
   THEN {"ResumedWhileFiring"} ELSE {}) \cup
  (IF \E rk \in DOMAIN lastStop : lastStop[rk].has /\ lastStop[rk].d # defs[rk].delay
   THEN {"OwnDelayApplied"} ELSE {}) \cup
  (IF TickDone /\ \E rk \in EvaluatedRks : ActsOf(rk) # <<>> /\ ActsOf(rk)[Len(ActsOf(rk))].ret = CONTINUE
   THEN {"ChainRanOffEnd"} ELSE {}) \cup
  (IF TickDone /\ \E rk \in EvaluatedRks : FirstFired(rk) >= 2 THEN {"LaterGroupFired"} ELSE {}) \cup
  (IF TickDone /\ \E rk \in EvaluatedRks : \E g \in DOMAIN defs[rk].groups : Fired(rk, g) /\ ASYNC \in GroupRets(rk, g)
   THEN {"AsyncDetectorCountsAsContinue"} ELSE {}) \cup
  (IF TickDone /\ \E rk \in EvaluatedRks : ActsOf(rk) # <<>> /\ rk \in DOMAIN tpre /\ tpre[rk].pauseUntil > 0
                    /\ DetsOf(rk)[Len(DetsOf(rk))].t = tpre[rk].pauseUntil
   THEN {"RunsAgainExactlyAtBoundary"} ELSE {}) \cup
  (IF TickDone /\ \E rk \in EvaluatedRks : rk \in DOMAIN tpre /\ tpre[rk].susp.has /\ st[rk].susp.has
   THEN {"PausedTwiceInARow"} ELSE {}) \cup
  (IF \E i \in DOMAIN bases : ~Enabled(bases[i]) THEN {"BaseDisabled"} ELSE {}) \cup
  (IF \E i \in DOMAIN bases : Len(bases[i].dropins) >= 2 THEN {"TwoDropinsOnOneBase"} ELSE {}) \cup
  (IF \E i \in DOMAIN ops : ops[i].op = "remove" /\ \E j \in 1..(i-1) : ops[j].tag = ops[i].tag /\ ops[j].op = "add"
   THEN {"RemovedAnAddedTag"} ELSE {}) \cup
  (IF \E i, j \in DOMAIN ops : i < j /\ ops[i].tag = ops[j].tag /\ ops[i].op = "add" /\ ops[j].op = "add"
   THEN {"ReAddedTag"} ELSE {}) \cup
  (IF \E i \in DOMAIN hooks : hooks[i].tag # "" THEN {"DropinHook"} ELSE {}) \cup
  (IF \E rk \in DOMAIN insts : Cardinality(DOMAIN insts[rk]) >= 2 THEN {"TwoInstances"} ELSE {}) \cup
  (IF TickDone /\ \E rk \in DOMAIN defs : defs[rk].kind = "inst" /\ rk \in DOMAIN tpre /\ tpre[rk] # FreshSt
                     /\ rk \in EvaluatedRks
   THEN {"InstanceStatePersisted"} ELSE {}) \cup
  (IF \E rk \in DOMAIN defs : defs[rk].kind = "inst" /\ phase = "idle" /\ ~\E t \in DOMAIN insts :
                                   \E p \in DOMAIN insts[t] : insts[t][p] = rk
   THEN {"InstanceDiscarded"} ELSE {}) \cup
  (IF \E a, b \in DOMAIN defs : a < b /\ defs[a].kind = "inst" /\ defs[b].kind = "inst" /\ defs[a].target = defs[b].target
   THEN {"InstanceRecreatedAfterAbsence"} ELSE {})

WitnessInit == TLCSet(2, {})
WitnessAcc == TLCSet(2, TLCGet(2) \cup Witnesses)
WitnessReport == PrintT(<<"WITNESSES", TLCGet(2)>>)
MCWitInit == MCInit /\ WitnessInit
MCWitSpec == MCWitInit /\ [][MCNext]_<<vars, mcvars>>
=============================================================================
