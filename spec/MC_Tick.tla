------------------------------- MODULE MC_Tick -------------------------------
(* Stage S for C10: the tick design under every single and double fault of a small file set, with *)
(* kills drawn from whatever the (possibly faulted) cgroup.procs reads returned; the tick always  *)
(* reaches TickEnd (no deadlock before it) and never acts on an unavailable statistic.           *)
EXTENDS Tick
CONSTANTS Files, MaxAcc, MaxTicksT
Results == {"ok", "absent", "empty", "unreadable"}
Pids == {0, 11, 12}
MCNext ==
  \/ (tno < MaxTicksT /\ TickBegin(tno + 1))
  \/ (nacc < MaxAcc /\ \E f \in Files, r \in Results : Read(f, r))
  \/ (\E f \in Files : Consume(f))
  \/ (nacc < MaxAcc /\ \E ps \in SUBSET Pids : ProcsOpen(<<"w">>, ps))
  \/ (\E pid \in Pids \ {0} : Signal(pid, 9))
  \/ TickEnd(tno)
MCSpec == TInit /\ [][MCNext]_tvars0 /\ WF_tvars0(TickEnd(tno))
TickAlwaysEnds == (tph = "tick") ~> (tph = "idle")
=============================================================================
