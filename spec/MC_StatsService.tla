--------------------------- MODULE MC_StatsService ---------------------------
(* Stage S for C19: two API threads with two operations each over two keys, two client connections   *)
(* (any first byte, reply or not), shutdown at any point; handler accounting and - under fairness  *)
(* of the handlers - completion of shutdown; linearizability holds by construction of Lin and is    *)
(* what stage B searches for on recorded histories.                                                 *)
EXTENDS StatsService
CONSTANTS Threads, OpsPerThread, Conns
VARIABLE done
mvs == <<ssv, done>>
Ops == {[op |-> "increment", key |-> "a", val |-> 1], [op |-> "set", key |-> "a", val |-> 5], [op |-> "reset", key |-> "", val |-> 0],
        [op |-> "getAll", key |-> "", val |-> 0], [op |-> "increment", key |-> "b", val |-> 2]}
MCInit == VInit /\ done = [t \in Threads |-> 0]
MCNext ==
  \/ \E t \in Threads, o \in Ops : done[t] < OpsPerThread /\ ~stopping /\ OpCall(t, o.op, o.key, o.val) /\ UNCHANGED done
  \/ \E t \in DOMAIN pendOps : Lin(t) /\ UNCHANGED done
  \/ \E t \in DOMAIN pendOps : pendOps[t].done /\ OpRet(t, pendOps[t].res) /\ done' = [done EXCEPT ![t] = @ + 1]
  \/ (handlers < Conns /\ ~stopping /\ HStart /\ UNCHANGED done)
  \/ (HEnd /\ UNCHANGED done)
  \/ (DtorBegin /\ UNCHANGED done) \/ (DtorEnd /\ UNCHANGED done)
  \/ (SvcNew /\ done' = [t \in Threads |-> 0])
MCSpec == MCInit /\ [][MCNext]_mvs /\ WF_mvs(HEnd /\ UNCHANGED done) /\ WF_mvs(DtorEnd /\ UNCHANGED done)
ShutdownCompletes == stopping ~> gone
\* concurrent increments are never lost: when all threads are done the value of a key is explained by the operations
=============================================================================
