SPECIFICATION MCSpec
CONSTANTS
  Threads = {1, 2}
  OpsPerThread = 3
  Conns = 2
INVARIANTS HandlerAccounting NoHandlerAfterShutdown
PROPERTY ShutdownCompletes
CHECK_DEADLOCK FALSE
