----------------------------- MODULE MC_Ranking -----------------------------
(* Stage S for C09: laws of the ranking policies on every sibling set of three cgroups over small *)
(* value domains and parameter grids (each case is one initial state).                            *)
EXTENDS Ranking
CONSTANTS Plugins

Rec(n, pref, u, pr, a, sw, p10, p60, io, pg) ==
  [name |-> n, pref |-> pref, usage |-> u, prot |-> pr, avgn |-> a, avgd |-> 1, swap |-> sw, p10 |-> p10, p60 |-> p60, io |-> io, pg |-> pg]
KmgSib(n) == {Rec(n, pref, u, pr, a, 0, 0, 0, 0, 0) : pref \in {0, 1}, u \in {1, 2, 4}, pr \in {0, 1}, a \in {0, 4}}
SwapSib(n) == {Rec(n, pref, 4, pr, 0, sw, 0, 0, 0, 0) : pref \in {0, 1}, pr \in {0, 2}, sw \in {0, 1, 2, 3}}
PresSib(n) == {Rec(n, pref, 1, 0, 0, 0, a, b, 0, 0) : pref \in {0, 1}, a \in {0, 1, 2}, b \in {0, 1, 2}}
RateSib(n) == {Rec(n, pref, 1, 0, 0, 0, 0, 0, x, x) : pref \in {-1, 0, 1}, x \in {0, 1, 2}}
Par(pl, thr, P, rn, rd, b) == [plugin |-> pl, thr |-> thr, P |-> P, rn |-> rn, rd |-> rd, biased |-> b, sn |-> 1, sd |-> 2]

Sets(F(_)) == {{a, b, c} : a \in F("x"), b \in F("y"), c \in F("z")} \cup {{a, b} : a \in F("x"), b \in F("y")}
Cases ==
  (IF "kill_by_memory_size_or_growth" \in Plugins
   THEN {[S |-> s, P |-> Par("kill_by_memory_size_or_growth", thr, P, r[1], r[2], FALSE)] :
           s \in Sets(KmgSib), thr \in {0, 50}, P \in {0, 50, 80}, r \in {<<5, 4>>, <<2, 1>>}} ELSE {})
  \cup (IF "kill_by_swap_usage" \in Plugins
   THEN {[S |-> s, P |-> Par("kill_by_swap_usage", thr, 0, 1, 1, b)] : s \in Sets(SwapSib), thr \in {0, 1, 2}, b \in BOOLEAN} ELSE {})
  \cup (IF "kill_by_pressure" \in Plugins THEN {[S |-> s, P |-> Par("kill_by_pressure", 0, 0, 1, 1, FALSE)] : s \in Sets(PresSib)} ELSE {})
  \cup (IF "kill_by_io_cost" \in Plugins THEN {[S |-> s, P |-> Par("kill_by_io_cost", 0, 0, 1, 1, FALSE)] : s \in Sets(RateSib)} ELSE {})
  \cup (IF "kill_by_pg_scan" \in Plugins THEN {[S |-> s, P |-> Par("kill_by_pg_scan", 0, 0, 1, 1, FALSE)] : s \in Sets(RateSib)} ELSE {})

VARIABLE c
Init == c \in Cases
Spec == Init /\ [][UNCHANGED c]_c

F == First(c.S, c.P)
E == Eligible(c.S, c.P)
\* a cgroup failing a plugin's eligibility filter is never chosen; something is chosen iff something is eligible
FirstWithinEligible == F \subseteq E
FirstIffEligible == (F # {}) <=> (E # {})
\* the first choice is always in the best preference class among the eligible
FirstInBestPrefClass == \A x \in F : \A y \in E : y.pref <= x.pref
\* thresholds act at exactly the configured value
SwapThresholdExact ==
  c.P.plugin = "kill_by_swap_usage" => \A x \in c.S : (x.swap = c.P.thr => x \notin F) /\ (x \in E <=> x.swap >= c.P.thr + 1)
KmgSizeBeatsGrowth ==
  c.P.plugin = "kill_by_memory_size_or_growth" =>
    LET C == BestPrefClass(c.S) sz == KMGSize(c.S, c.P.thr) \cap C IN
    (sz # {} => F \subseteq sz /\ \A x \in F : \A y \in sz : Eff(y) <= Eff(x))
KmgGrowthOnlyInTopPercentile ==
  c.P.plugin = "kill_by_memory_size_or_growth" =>
    LET C == BestPrefClass(c.S) sz == KMGSize(c.S, c.P.thr) \cap C gr == KMGGrowth(c.S, c.P.P, c.P.rn, c.P.rd) \cap C IN
    ((sz = {} /\ gr # {}) => F \subseteq KMGTop(c.S, c.P.P))
PgOnlyPositive == c.P.plugin = "kill_by_pg_scan" => \A x \in F : x.pg > 0
=============================================================================
