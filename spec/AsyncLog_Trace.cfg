SPECIFICATION TraceSpec
CONSTANT Cap = 1048576
CONSTRAINT TraceProgress
POSTCONDITION TraceAccepted
INVARIANTS NoDuplicates OnlyAccepted PerThreadFifo Bounded FlushedAtShutdown
CHECK_DEADLOCK FALSE
