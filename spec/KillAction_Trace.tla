-------------------------- MODULE KillAction_Trace --------------------------
(* Stage B for C01 C03 C04 C07 C17: traces recorded by kill_driver.cpp at the libc boundary of *)
(* the real kill plugins are accepted iff they are behaviours of KillAction.tla.               *)
EXTENDS KillAction, Json, IOUtils

VARIABLE l
VARIABLE aux   \* ruleset-level pause bookkeeping around the kill action (see AuxStep)
tvars == <<kvars, l, aux>>

TraceLog == ndJsonDeserialize(IOEnv.TRACE)
N == Len(TraceLog)
Ev == TraceLog[l]
IsEv(name) == l <= N /\ Ev.e = name
Consume == l' = l + 1

SeqToSet(s) == {s[i] : i \in DOMAIN s}
WorldOf(ws) == SeqToSet(ws)
CfgOf(c) == [plugin |-> c.plugin, pats |-> SeqToSet(c.pats), recursive |-> c.recursive, dry |-> c.dry,
             always |-> c.always, kernel |-> c.kernel, reap |-> c.reap, timeout |-> c.timeout,
             hooks |-> [i \in DOMAIN c.hooks |-> [id |-> c.hooks[i].id, pats |-> SeqToSet(c.hooks[i].pats)]]]
XsOf(xs) == [p \in {xs[i].path : i \in DOMAIN xs} |->
               LET x == xs[CHOOSE i \in DOMAIN xs : xs[i].path = p] IN
               [ooms |-> [trusted |-> x.oomsT, user |-> x.oomsU],
                kill |-> [trusted |-> x.killT, user |-> x.killU],
                uuid |-> [trusted |-> 0, user |-> 0]]]

\* ---- post-action delay around a REAL kill plugin (C05): the ruleset r0 runs [kill plugin, scripted action "next"].
\* After a chain ends with STOP at time t the actions do not run before t + d, d = the stopping action's own
\* post_action_delay if it has one, else the ruleset's; a kill plugin that CONTINUEs (always_continue, failure)
\* does not set any pause; a paused or not-fired ruleset runs no action; a fired unpaused one (or one with a
\* chain suspended by ASYNC_PAUSED) does.  aux is updated from the event consumed in the step, whatever action.
AuxInit == [pause |-> 0, can |-> FALSE, must |-> FALSE, wasAsync |-> FALSE, ran |-> FALSE, kret |-> "", rsDelay |-> 0, plDelay |-> -1]
AuxGuard(a, e) ==
  CASE e.e = "KRun" -> a.can /\ (a.must \/ a.wasAsync)
    [] e.e = "KStat" -> (a.can /\ (a.must \/ a.wasAsync)) => a.ran
    [] e.e = "Run" /\ e.role = "act" -> a.ran /\ a.kret = "CONTINUE"
    [] OTHER -> TRUE
AuxUpdate(a, e) ==
  CASE e.e = "KReset" -> [AuxInit EXCEPT !.rsDelay = e.cfg.rsDelay, !.plDelay = e.cfg.plDelay]
    [] e.e = "KEnv" -> [a EXCEPT !.can = e.t >= a.pause, !.must = FALSE, !.ran = FALSE, !.wasAsync = (a.kret = "ASYNC")]
    [] e.e = "Run" /\ e.role = "det" -> [a EXCEPT !.must = (e.ret = "CONTINUE")]
    [] e.e = "KRun" -> [a EXCEPT !.ran = TRUE]
    [] e.e = "KRet" -> [a EXCEPT !.kret = e.ret,
                                 !.pause = IF e.ret = "STOP" THEN e.t + 1000 * (IF a.plDelay >= 0 THEN a.plDelay ELSE a.rsDelay) ELSE @]
    [] e.e = "Run" /\ e.role = "act" -> [a EXCEPT !.kret = "", !.pause = IF e.ret = "STOP" THEN e.t + 1000 * a.rsDelay ELSE @]
    [] OTHER -> a
AuxStep == IF l' = l THEN aux' = aux ELSE AuxGuard(aux, TraceLog[l]) /\ aux' = AuxUpdate(aux, TraceLog[l])

TraceInit == KInit /\ l = 1 /\ aux = AuxInit /\ TLCSet(1, 0)

TReset == IsEv("KReset") /\ Consume /\ KReset(WorldOf(Ev.world), CfgOf(Ev.cfg), XsOf(Ev.x), Ev.t)
TEnv == IsEv("KEnv") /\ Consume /\ KEnv(WorldOf(Ev.world), Ev.t)
\* the prekill-hook window is counted from when the action chain fired: a fresh run sees now + prekill_hook_timeout,
\* a run resumed after ASYNC_PAUSED sees the deadline of the run it continues (even if a detector group fired again)
TRun == /\ IsEv("KRun") /\ Consume /\ Ev.t = know /\ Ev.hasRs = TRUE /\ KRun(Ev.deadline)
        /\ Ev.deadline = (IF kret = "ASYNC" THEN kctx.deadline ELSE know + 1000 * kcfg.timeout)
TRet == IsEv("KRet") /\ Consume /\ Ev.t = know /\ KRet(Ev.ret)
TStat == IsEv("KStat") /\ Consume /\ Ev.kills = kstat /\ kph = "idle" /\ UNCHANGED kvars
\* end of an execution; objects torn down afterwards (an outstanding invocation dies with its plugin)
TEnd == /\ IsEv("KEnd") /\ Consume /\ kph = "idle" /\ kph' = "over"
        /\ UNCHANGED <<stale, kw, kcfg, kx, stack, tried, hk, att, kctx, know, kstat, kret, ktick, pgLast,
                       liveInv, khist, keff, uuids>>
TTeardown == /\ IsEv("HookDestroy") /\ Consume /\ kph = "over" /\ Ev.inv \in liveInv
             /\ liveInv' = liveInv \ {Ev.inv}
             /\ UNCHANGED <<stale, kw, kcfg, kx, kph, stack, tried, hk, att, kctx, know, kstat, kret, ktick, pgLast,
                            khist, keff, uuids>>

\* engine-level events of the surrounding ruleset are the business of Engine_Trace
TSkip == /\ l <= N /\ Ev.e \in {"Init", "Prerun", "Run", "Dtor", "HookInit", "HookGone"}
         /\ Consume /\ UNCHANGED kvars

THookFire == IsEv("HookFire") /\ Consume /\ Ev.t = know /\ HookFire(Ev.hook, Ev.inv, Ev.pc, Ev.gen)
THookPoll == /\ IsEv("HookPoll") /\ Consume
             /\ (HookPollInline(Ev.inv, Ev.res) \/ HookPollResume(Ev.inv, Ev.res))
THookDestroy == IsEv("HookDestroy") /\ Consume /\ HookDestroy(Ev.inv)

TX == /\ IsEv("X") /\ Consume
      /\ \/ (Ev.kind = "uuid" /\ XUuid(Ev.p, Ev.ns, Ev.v))
         \/ (Ev.kind = "ooms" /\ XOoms(Ev.p, Ev.ns, Ev.v))
         \/ (Ev.kind = "kill" /\ XKill(Ev.p, Ev.ns, Ev.v))
\* a cgroup emptied in the middle of a run (injected by the driver right before one of the plugin's file opens)
TEmpty == IsEv("KEmpty") /\ Consume /\ KEmpty(Ev.p)
TGone == IsEv("KGone") /\ Consume /\ KGone(Ev.p)
TProcs == IsEv("ProcsOpen") /\ Consume /\ ProcsOpen(Ev.p, SeqToSet(Ev.pids))
\* the 1 s breather between rounds shows up as a later timestamp on the next kill
TKill == IsEv("Kill") /\ Consume /\ Ev.t = know /\ Signal(Ev.pid, Ev.sig, Ev.ok)
TClock == /\ l <= N /\ Ev.e \in {"Kill", "KRet", "HookFire", "HookPoll"} /\ Ev.t > know /\ kph \notin {"idle", "over"}
          /\ KClock(Ev.t) /\ UNCHANGED l
TReap == IsEv("Reap") /\ Consume /\ Reap(Ev.pid)
TCtl == /\ IsEv("CtlWrite") /\ Consume
        /\ \/ (Ev.file = "cgroup.freeze" /\ CtlFreeze(Ev.p, Ev.val))
           \/ (Ev.file = "cgroup.kill" /\ CtlKill(Ev.p, Ev.val))
TKmsg == /\ IsEv("Kmsg") /\ Consume /\ Ev.prefixOk = TRUE /\ Ev.rs = "r0" /\ Ev.dg = "g0"
         /\ Kmsg(Ev.p, Ev.plugin, Ev.dry)

\* ---- systemd_restart (C04): dry issues no D-Bus call and counts nothing, but logs "(dry)" and STOPs.
\* sd is encoded in kcfg/kph: kph = "sd" while a restart action runs; kcfg.plugin = service, kcfg.dry.
TSReset == /\ IsEv("SReset") /\ Consume
           /\ kw' = {} /\ stale' = {} /\ kx' = <<>> /\ know' = Ev.t
           /\ kcfg' = [plugin |-> Ev.service, pats |-> {}, recursive |-> FALSE, dry |-> Ev.dry, always |-> FALSE,
                       kernel |-> FALSE, reap |-> FALSE, hooks |-> <<>>]
           /\ kph' = "sd" /\ stack' = <<>> /\ tried' = FALSE /\ hk' = NoHook /\ att' = NoAtt
           /\ kctx' = [deadline |-> -1] /\ kstat' = 0 /\ kret' = "CONTINUE" /\ ktick' = 0 /\ pgLast' = -1
           /\ liveInv' = {} /\ khist' = <<>> /\ keff' = {} /\ uuids' = {}
TDbus == /\ IsEv("Dbus") /\ Consume /\ kph = "sd" /\ ~kcfg.dry /\ keff = {}
         /\ Ev.method = "RestartUnit" /\ Ev.unit = kcfg.plugin /\ Ev.mode = "replace"
         /\ keff' = {[kind |-> "dbus", path |-> <<>>, pid |-> 0, victim |-> <<>>]}
         /\ UNCHANGED <<stale, kw, kcfg, kx, kph, stack, tried, hk, att, kctx, know, kstat, kret, ktick, pgLast,
                        liveInv, khist, uuids>>
TSKmsg == /\ IsEv("SKmsg") /\ Consume /\ kph = "sd" /\ Ev.prefixOk = TRUE
          /\ Ev.service = kcfg.plugin /\ Ev.dry = kcfg.dry
          /\ (kcfg.dry \/ keff # {})                     \* wet: only after the D-Bus call
          /\ kstat' = IF kcfg.dry THEN kstat ELSE kstat + 1
          /\ kret' = "STOP"
          /\ UNCHANGED <<stale, kw, kcfg, kx, kph, stack, tried, hk, att, kctx, know, ktick, pgLast,
                         liveInv, khist, keff, uuids>>
TSRet == /\ IsEv("SRet") /\ Consume /\ kph = "sd" /\ Ev.init = 0
         /\ Ev.ret = kret /\ Ev.restarts = kstat
         /\ kph' = "over"
         /\ UNCHANGED <<stale, kw, kcfg, kx, stack, tried, hk, att, kctx, know, kstat, kret, ktick, pgLast,
                        liveInv, khist, keff, uuids>>

TSilent == KSilent /\ UNCHANGED l

TraceNext ==
  \/ TReset \/ TEnv \/ TRun \/ TRet \/ TStat \/ TEnd \/ TSkip \/ THookFire \/ THookPoll
  \/ THookDestroy \/ TSReset \/ TDbus \/ TSKmsg \/ TSRet \/ TTeardown \/ TClock \/ TX \/ TProcs \/ TKill \/ TReap \/ TCtl \/ TKmsg \/ TEmpty \/ TGone \/ TSilent

TraceSpec == TraceInit /\ [][TraceNext /\ AuxStep]_tvars

TraceProgress == TLCSet(1, IF TLCGet(1) < l THEN l ELSE TLCGet(1))
TraceAccepted ==
  /\ PrintT(<<"MAXL", TLCGet(1), "OF", N>>)
  /\ TLCGet(1) = N + 1
=============================================================================
