-------------------------- MODULE KillAction_Trace --------------------------
(* Stage B for C01 C03 C04 C07 C17: traces recorded by kill_driver.cpp at the libc boundary of *)
(* the real kill plugins are accepted iff they are behaviours of KillAction.tla.               *)
EXTENDS KillAction, Json, IOUtils

VARIABLE l
tvars == <<kvars, l>>

TraceLog == ndJsonDeserialize(IOEnv.TRACE)
N == Len(TraceLog)
Ev == TraceLog[l]
IsEv(name) == l <= N /\ Ev.e = name
Consume == l' = l + 1

SeqToSet(s) == {s[i] : i \in DOMAIN s}
WorldOf(ws) == SeqToSet(ws)
CfgOf(c) == [plugin |-> c.plugin, pats |-> SeqToSet(c.pats), recursive |-> c.recursive, dry |-> c.dry,
             always |-> c.always, kernel |-> c.kernel, reap |-> c.reap,
             hooks |-> [i \in DOMAIN c.hooks |-> [id |-> c.hooks[i].id, pats |-> SeqToSet(c.hooks[i].pats)]]]
XsOf(xs) == [p \in {xs[i].path : i \in DOMAIN xs} |->
               LET x == xs[CHOOSE i \in DOMAIN xs : xs[i].path = p] IN
               [ooms |-> [trusted |-> x.oomsT, user |-> x.oomsU],
                kill |-> [trusted |-> x.killT, user |-> x.killU],
                uuid |-> [trusted |-> 0, user |-> 0]]]

TraceInit == KInit /\ l = 1 /\ TLCSet(1, 0)

TReset == IsEv("KReset") /\ Consume /\ KReset(WorldOf(Ev.world), CfgOf(Ev.cfg), XsOf(Ev.x), Ev.t)
TEnv == IsEv("KEnv") /\ Consume /\ KEnv(WorldOf(Ev.world), Ev.t)
TRun == IsEv("KRun") /\ Consume /\ Ev.t = know /\ Ev.hasRs = TRUE /\ KRun(Ev.deadline)
TRet == IsEv("KRet") /\ Consume /\ Ev.t = know /\ KRet(Ev.ret)
TStat == IsEv("KStat") /\ Consume /\ Ev.kills = kstat /\ kph = "idle" /\ UNCHANGED kvars
\* end of an execution; objects torn down afterwards (an outstanding invocation dies with its plugin)
TEnd == /\ IsEv("KEnd") /\ Consume /\ kph = "idle" /\ kph' = "over"
        /\ UNCHANGED <<kw, kcfg, kx, stack, tried, hk, att, kctx, know, kstat, kret, ktick, pgLast,
                       liveInv, khist, keff, uuids>>
TTeardown == /\ IsEv("HookDestroy") /\ Consume /\ kph = "over" /\ Ev.inv \in liveInv
             /\ liveInv' = liveInv \ {Ev.inv}
             /\ UNCHANGED <<kw, kcfg, kx, kph, stack, tried, hk, att, kctx, know, kstat, kret, ktick, pgLast,
                            khist, keff, uuids>>

\* engine-level events of the surrounding ruleset are the business of Engine_Trace
TSkip == /\ l <= N /\ Ev.e \in {"Init", "Prerun", "Run", "Dtor", "HookInit", "HookGone"}
         /\ Consume /\ UNCHANGED kvars

THookFire == IsEv("HookFire") /\ Consume /\ Ev.t = know /\ HookFire(Ev.hook, Ev.inv, Ev.pc, Ev.gen)
THookPoll == /\ IsEv("HookPoll") /\ Consume
             /\ (HookPollInline(Ev.inv, Ev.res) \/ HookPollResume(Ev.inv, Ev.res))
THookDestroy == IsEv("HookDestroy") /\ Consume /\ HookDestroy(Ev.inv)

TX == /\ IsEv("X") /\ Consume
      /\ \/ (Ev.kind = "uuid" /\ XUuid(Ev.p, Ev.ns, Ev.v))
         \/ (Ev.kind = "ooms" /\ XOoms(Ev.p, Ev.ns, Ev.v))
         \/ (Ev.kind = "kill" /\ XKill(Ev.p, Ev.ns, Ev.v))
TProcs == IsEv("ProcsOpen") /\ Consume /\ ProcsOpen(Ev.p, SeqToSet(Ev.pids))
\* the 1 s breather between rounds shows up as a later timestamp on the next kill
TKill == IsEv("Kill") /\ Consume /\ Ev.t = know /\ Signal(Ev.pid, Ev.sig, Ev.ok)
TClock == /\ l <= N /\ Ev.e \in {"Kill", "KRet"} /\ Ev.t > know /\ kph \in {"attempt", "ret"}
          /\ KClock(Ev.t) /\ UNCHANGED l
TReap == IsEv("Reap") /\ Consume /\ Reap(Ev.pid)
TCtl == /\ IsEv("CtlWrite") /\ Consume
        /\ \/ (Ev.file = "cgroup.freeze" /\ CtlFreeze(Ev.p, Ev.val))
           \/ (Ev.file = "cgroup.kill" /\ CtlKill(Ev.p, Ev.val))
TKmsg == /\ IsEv("Kmsg") /\ Consume /\ Ev.prefixOk = TRUE /\ Ev.rs = "r0" /\ Ev.dg = "g0"
         /\ Kmsg(Ev.p, Ev.plugin, Ev.dry)

\* ---- systemd_restart (C04): dry issues no D-Bus call and counts nothing, but logs "(dry)" and STOPs.
\* sd is encoded in kcfg/kph: kph = "sd" while a restart action runs; kcfg.plugin = service, kcfg.dry.
TSReset == /\ IsEv("SReset") /\ Consume
           /\ kw' = {} /\ kx' = <<>> /\ know' = Ev.t
           /\ kcfg' = [plugin |-> Ev.service, pats |-> {}, recursive |-> FALSE, dry |-> Ev.dry, always |-> FALSE,
                       kernel |-> FALSE, reap |-> FALSE, hooks |-> <<>>]
           /\ kph' = "sd" /\ stack' = <<>> /\ tried' = FALSE /\ hk' = NoHook /\ att' = NoAtt
           /\ kctx' = [deadline |-> -1] /\ kstat' = 0 /\ kret' = "CONTINUE" /\ ktick' = 0 /\ pgLast' = -1
           /\ liveInv' = {} /\ khist' = <<>> /\ keff' = {} /\ uuids' = {}
TDbus == /\ IsEv("Dbus") /\ Consume /\ kph = "sd" /\ ~kcfg.dry /\ keff = {}
         /\ Ev.method = "RestartUnit" /\ Ev.unit = kcfg.plugin /\ Ev.mode = "replace"
         /\ keff' = {[kind |-> "dbus", path |-> <<>>, pid |-> 0, victim |-> <<>>]}
         /\ UNCHANGED <<kw, kcfg, kx, kph, stack, tried, hk, att, kctx, know, kstat, kret, ktick, pgLast,
                        liveInv, khist, uuids>>
TSKmsg == /\ IsEv("SKmsg") /\ Consume /\ kph = "sd" /\ Ev.prefixOk = TRUE
          /\ Ev.service = kcfg.plugin /\ Ev.dry = kcfg.dry
          /\ (kcfg.dry \/ keff # {})                     \* wet: only after the D-Bus call
          /\ kstat' = IF kcfg.dry THEN kstat ELSE kstat + 1
          /\ kret' = "STOP"
          /\ UNCHANGED <<kw, kcfg, kx, kph, stack, tried, hk, att, kctx, know, ktick, pgLast,
                         liveInv, khist, keff, uuids>>
TSRet == /\ IsEv("SRet") /\ Consume /\ kph = "sd" /\ Ev.init = 0
         /\ Ev.ret = kret /\ Ev.restarts = kstat
         /\ kph' = "over"
         /\ UNCHANGED <<kw, kcfg, kx, stack, tried, hk, att, kctx, know, kstat, kret, ktick, pgLast,
                        liveInv, khist, keff, uuids>>

TSilent == KSilent /\ UNCHANGED l

TraceNext ==
  \/ TReset \/ TEnv \/ TRun \/ TRet \/ TStat \/ TEnd \/ TSkip \/ THookFire \/ THookPoll
  \/ THookDestroy \/ TSReset \/ TDbus \/ TSKmsg \/ TSRet \/ TTeardown \/ TClock \/ TX \/ TProcs \/ TKill \/ TReap \/ TCtl \/ TKmsg \/ TSilent

TraceSpec == TraceInit /\ [][TraceNext]_tvars

TraceProgress == TLCSet(1, IF TLCGet(1) < l THEN l ELSE TLCGet(1))
TraceAccepted ==
  /\ PrintT(<<"MAXL", TLCGet(1), "OF", N>>)
  /\ TLCGet(1) = N + 1
=============================================================================
