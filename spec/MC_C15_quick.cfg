SPECIFICATION MCSpec
CONSTANTS
  MaxTicksS = 2
  MaxChanges = 1
  MaxQ = 2
  Fields = {"current_usage", "effective_swap_util_ppm", "memory_protection", "average_usage", "pg_scan_rate"}
INVARIANTS NoStaleArchive RawExact
PROPERTIES CacheOnlyGrows FreshNextTick StableInTick
CHECK_DEADLOCK FALSE
