SPECIFICATION MCSpec
CONSTANTS
  Files = {"memory.current", "memory.stat", "cgroup.procs"}
  MaxAcc = 6
  MaxTicksT = 2
INVARIANTS UnavailableNotGuessed Containment
PROPERTY TickAlwaysEnds
CHECK_DEADLOCK FALSE
