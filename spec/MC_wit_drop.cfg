SPECIFICATION MCWitSpec
CONSTANTS
  MCConfigs <- CfgDrop
  MCUnits <- UnitsDrop
  MCTags = {"t1", "t2"}
  MaxTicks = 0
  MaxOps = 3
  DTs = {1000}
  Advs = {0}
  DetRets = {"CONTINUE"}
  ActRets = {"CONTINUE", "STOP"}
  ProbePaths = {}
CONSTRAINT WitnessAcc
POSTCONDITION WitnessReport
CHECK_DEADLOCK FALSE
