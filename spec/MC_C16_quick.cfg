\* C16: all strings over {a,b,/,*,?,.} of length <= 4 (1555) for the unary laws, all pairs of length <= 3
\* for hook matching (67k), all dot-free patterns of length <= 4 x 3 trees for resolution
SPECIFICATION Spec
CONSTANTS
  MaxLen = 4
  PairLen = 2
  GlobPatLen = 3
INVARIANTS NoEmptyComponents CanonIdempotent SlashInsensitive FsTrailingSlash AbsIsRootPlusRel ChildParentInverse RootIffEmpty ChildIsConcat HookThree HookStarWholeComponentOnly GlobOnlyDirs GlobComplete
POSTCONDITION DumpCases
CHECK_DEADLOCK FALSE
