SPECIFICATION MCWitSpec
CONSTANTS
  MCConfigs <- CfgPlain1
  MCUnits <- NoUnits
  MCTags = {}
  MaxTicks = 3
  MaxOps = 0
  DTs = {0, 1000, 2000}
  Advs = {0}
  DetRets = {"CONTINUE", "STOP", "ASYNC"}
  ActRets = {"CONTINUE", "STOP", "ASYNC"}
  ProbePaths = {}
CONSTRAINT WitnessAcc
POSTCONDITION WitnessReport
CHECK_DEADLOCK FALSE
