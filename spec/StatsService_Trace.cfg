SPECIFICATION TraceSpec
CONSTRAINT TraceProgress
POSTCONDITION TraceAccepted
INVARIANTS HandlerAccounting NoHandlerAfterShutdown
CHECK_DEADLOCK FALSE
