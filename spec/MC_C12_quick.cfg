\* C12: number strings over {0,1,9,-,.,x,e} up to length 3 + special (overflow, nan, inf, hex ...), size
\* strings over {1,5,.,K,m,space,%,x} up to length 3 + special, the base IR with every single mutation,
\* every JSON position x shape
SPECIFICATION Spec
CONSTANTS
  NumLen = 3
  SizeLen = 3
  MaxMut = 1
INVARIANTS TypeLattice NoGarbageNumber SizeHasNoForeignChars PercentIsNotSize Monotone CompilePreservesOrder DropinOnlyRelaxesEmptiness ShapeExpectedAccepted ShapeContainerMismatchRejected
POSTCONDITION DumpCases
CHECK_DEADLOCK FALSE
