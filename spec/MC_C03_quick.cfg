SPECIFICATION MCSpec
CONSTANTS
  MCShapes <- ShapeSmall
  MCPats <- PatsStar
  MCHooks <- HooksNone
  MCFlags <- FlagsRec
  MCAttrs <- AttrSet
  MCPlugins = {"kill_by_memory_size_or_growth"}
  MaxTicksK = 1
  TimeoutsK = {2}
  MaxOpens = 1
  EnvEdits = FALSE
  MidRun = "no"
INVARIANTS Containment OrderRespected NoDescentBelowOomGroup UnpopulatedNeverAttempted DryIsPure NoSignalWhileHookOutstanding AtMostOneInvocation OneFirePerVictim RetMapping NoFireAfterWindow
CHECK_DEADLOCK FALSE
