----------------------------- MODULE CgroupPath -----------------------------
(***************************************************************************)
(* Cgroup path algebra and pattern matching (C16), used by KillAction for   *)
(* resolving `cgroup` patterns and hook patterns.                           *)
(*                                                                          *)
(* A string is a sequence of one-character strings, e.g. <<"a","/","*">>.   *)
(* A canonical path is a sequence of non-empty components, each a string.   *)
(***************************************************************************)
EXTENDS Integers, Sequences, FiniteSets

\* ---------------------------------------------------------------- strings
IsPrefixOf(p, s) == Len(p) <= Len(s) /\ SubSeq(s, 1, Len(p)) = p

\* Split(s) : components of s separated by "/", empty components dropped (Util::split)
RECURSIVE SplitAcc(_, _, _)
SplitAcc(s, cur, acc) ==
  IF s = <<>> THEN (IF cur = <<>> THEN acc ELSE Append(acc, cur))
  ELSE IF Head(s) = "/" THEN SplitAcc(Tail(s), <<>>, IF cur = <<>> THEN acc ELSE Append(acc, cur))
  ELSE SplitAcc(Tail(s), Append(cur, Head(s)), acc)
Split(s) == SplitAcc(s, <<>>, <<>>)

\* Join(parts) : components joined by single "/" (relative path string)
RECURSIVE Join(_)
Join(parts) ==
  IF parts = <<>> THEN <<>>
  ELSE IF Len(parts) = 1 THEN parts[1]
  ELSE parts[1] \o <<"/">> \o Join(Tail(parts))

\* ---------------------------------------------------------------- the path object
\* CgroupPath(fs, s): fs loses ONE trailing "/" (unless it is just "/"); s is split.
StripFs(fs) == IF Len(fs) > 1 /\ fs[Len(fs)] = "/" THEN SubSeq(fs, 1, Len(fs) - 1) ELSE fs
Canon(fs, s) == [fs |-> StripFs(fs), parts |-> Split(s)]

Rel(p) == Join(p.parts)
Abs(p) == IF p.parts = <<>> THEN p.fs ELSE p.fs \o <<"/">> \o Rel(p)
IsRoot(p) == p.parts = <<>>
Parent(p) == [p EXCEPT !.parts = SubSeq(p.parts, 1, Len(p.parts) - 1)]   \* defined iff ~IsRoot(p)
Child(p, s) == [p EXCEPT !.parts = p.parts \o Split(s)]
PathEq(p, q) == Abs(p) = Abs(q)

\* ---------------------------------------------------------------- shell glob on one component
\* fnmatch(3) semantics used by glob(3) without flags other than the period rule:
\* "*" any string, "?" any one character, anything else itself; a leading "." in the name is
\* matched only by a literal ".".
RECURSIVE FnM(_, _)
FnM(pat, name) ==
  IF pat = <<>> THEN name = <<>>
  ELSE IF Head(pat) = "*"
       THEN \/ FnM(Tail(pat), name)
            \/ (name # <<>> /\ FnM(pat, Tail(name)))
  ELSE IF name = <<>> THEN FALSE
  ELSE IF Head(pat) = "?" THEN FnM(Tail(pat), Tail(name))
  ELSE Head(pat) = Head(name) /\ FnM(Tail(pat), Tail(name))

FnMatch(pat, name) ==
  /\ (name # <<>> /\ Head(name) = ".") => (pat # <<>> /\ Head(pat) = ".")
  /\ FnM(pat, name)

HasMeta(comp) == \E i \in DOMAIN comp : comp[i] \in {"*", "?"}

\* component-wise match of a canonical pattern against a canonical path
PatMatch(pat, path) ==
  /\ Len(pat) = Len(path)
  /\ \A i \in DOMAIN pat : FnMatch(pat[i], path[i])

\* Glob(dirs, pat): the existing directories (given as a set of canonical paths, closed under
\* parents) that match pat component-wise.  The root (<<>>) matches the empty pattern.
Glob(dirs, pat) == {d \in dirs \cup {<<>>} : PatMatch(pat, d)}

\* ---------------------------------------------------------------- prekill-hook pattern match
\* docs/prekill_hooks.md: true iff path equals the pattern, is an ancestor of a possible match,
\* or descends from a match; "*" stands only for one WHOLE component (no partial wildcards).
HookCompMatch(pc, c) == pc = <<"*">> \/ pc = c
HookMatch(path, pat) ==
  LET n == IF Len(path) < Len(pat) THEN Len(path) ELSE Len(pat)
  IN \A i \in 1..n : HookCompMatch(pat[i], path[i])

\* independent, declarative reading of the three cases (used to check HookMatch against it)
HookExact(path, pat) == Len(path) = Len(pat) /\ \A i \in DOMAIN pat : HookCompMatch(pat[i], path[i])
HookThreeCases(path, pat) ==
  \/ HookExact(path, pat)
  \/ (Len(path) < Len(pat) /\ HookExact(path, SubSeq(pat, 1, Len(path))))     \* ancestor of a match
  \/ (Len(path) > Len(pat) /\ HookExact(SubSeq(path, 1, Len(pat)), pat))      \* below a match
=============================================================================
