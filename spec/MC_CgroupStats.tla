--------------------------- MODULE MC_CgroupStats ---------------------------
(* Stage S for C15: the caching / archive design of CgroupStats.tla against the statement's      *)
(* temporal clauses (value stable within a tick, fresh next tick, no history across re-creation) *)
(* and the exactness of raw answers, for a parent with two children, small values, mid-tick      *)
(* kernel changes, removal and re-creation between ticks.                                        *)
EXTENDS CgroupStats

CONSTANTS MaxTicksS, MaxChanges, Fields, MaxQ

VARIABLES nq, nchg, answers   \* answers: <<path, field>> -> value given earlier in this tick (history)
mcs == <<nq, nchg, answers>>

pa == <<"a">>  pax == <<"a", "x">>  pay == <<"a", "y">>
Psi0 == [a10 |-> 0, a60 |-> 0, a300 |-> 0, total |-> 0]
Rec(g, cur, low, smax, suse, pg) ==
  [gen |-> g, current_usage |-> cur, swap_usage |-> suse, swap_max |-> smax, memory_low |-> low, memory_min |-> 0,
   memory_high |-> Inf, memory_max |-> Inf, mstat |-> [anon |-> 1, file |-> 1, shmem |-> 0, pgscan |-> pg],
   nr_dying_descendants |-> 0, is_populated |-> TRUE, oom_group |-> FALSE, kill_preference |-> 0,
   mem_pressure |-> Psi0, mem_pressure_some |-> Psi0, io_pressure |-> Psi0, io_pressure_some |-> Psi0,
   io_stat |-> <<[dev |-> "8:0", rbytes |-> pg, wbytes |-> 0, rios |-> 1, wios |-> 0, dbytes |-> 0, dios |-> 0]>>]
Recs(g) == {Rec(g, 0, 8, 0, 1, 5), Rec(g, 4, 0, Inf, 1, 9), Rec(g, 2, 8, 3, 2, 9)}
Cfg0 == [devs |-> [d \in {"8:0"} |-> "ssd"],
         ssd |-> [read_iops |-> 1, readbw |-> 2, write_iops |-> 0, writebw |-> 0, trim_iops |-> 0, trimbw |-> 0],
         hdd |-> [read_iops |-> 0, readbw |-> 0, write_iops |-> 0, writebw |-> 0, trim_iops |-> 0, trimbw |-> 0], decay |-> 4]

MCInit ==
  /\ K = [p \in {pa, pax} |-> Rec(1, 4, 8, 3, 1, 5)]
  /\ sys = [swaptotal |-> 8, swapused |-> 2] /\ cache = <<>> /\ obt = <<>> /\ arch = <<>> /\ cfgS = Cfg0 /\ tickS = 0
  /\ nchg = 0 /\ answers = <<>> /\ nq = 0

Cand == -20..60
MCQuery ==
  /\ nq < MaxQ /\ nq' = nq + 1
  /\ \E p \in DOMAIN K, f \in Fields :
    LET c == FillFor(cache, p, f)
        dom == IF f \in {"memory_protection", "average_usage", "effective_usage"} THEN Cand
               ELSE IF f = "effective_swap_util_ppm" THEN {0, 125000, 250000, 333333, 375000, 500000, 1000000}
               ELSE Cand \cup {Inf}
        vs == {v \in dom : QueryOk(p, f, c, v)} IN
    /\ vs # {}
    /\ \E v \in vs :
         /\ Query(p, f, f # "pg_scan_rate" \/ Arch(p).hasPg, v)
         /\ answers' = [k \in DOMAIN answers \cup {<<p, f>>} |-> IF k = <<p, f>> THEN v ELSE answers[k]]
    /\ UNCHANGED nchg

MCChange ==
  /\ nchg < MaxChanges
  /\ \/ \E p \in DOMAIN K : \E r \in Recs(K[p].gen) : r # K[p] /\ KernelChange(p, r) /\ UNCHANGED answers
     \/ /\ pax \in DOMAIN K /\ TreeChange([p \in DOMAIN K \ {pax} |-> K[p]]) /\ answers' = <<>>         \* removal
     \/ /\ pax \in DOMAIN K /\ TreeChange([K EXCEPT ![pax].gen = @ + 1]) /\ answers' = <<>>              \* re-creation
  /\ nchg' = nchg + 1 /\ UNCHANGED nq

MCRefresh == tickS < MaxTicksS /\ Refresh /\ answers' = <<>> /\ nq' = 0 /\ UNCHANGED nchg

MCNext == MCQuery \/ MCChange \/ MCRefresh
MCSpec == MCInit /\ [][MCNext]_<<svars, mcs>>

Exact == {"current_usage", "swap_usage", "swap_max", "memory_low", "pg_scan_cumulative", "effective_swap_max",
          "effective_swap_free", "io_cost_cumulative", "io_cost_rate", "pg_scan_rate", "id", "children"}
\* C15: once obtained, a value does not change within the tick however often it is queried
StableInTick ==
  [][ \A k \in DOMAIN answers : (k \in DOMAIN answers' /\ k[2] \in Exact) => answers'[k] = answers[k] ]_<<svars, mcs>>
\* raw values are exactly the kernel's at the time of the first query in the tick
RawExact == \A k \in DOMAIN cache : k \in DOMAIN answers => answers[k] = cache[k]
=============================================================================
