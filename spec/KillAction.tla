------------------------------ MODULE KillAction ------------------------------
(***************************************************************************)
(* The kill path shared by all five kill plugins (BaseKillPlugin): resolve  *)
(* the configured patterns, rank, walk the candidate stack depth first,     *)
(* skip unpopulated cgroups, fire at most one prekill hook per victim and   *)
(* wait for it across ticks, attempt a kill (xattrs, signalling rounds or   *)
(* cgroup.kill, reaping, accounting), fall back to the next candidate.      *)
(*                                                                          *)
(* Properties decided here: C01 C03 C04 C07 C17.                            *)
(* Ranking keys are abstract here (node.key, node.elig); what each plugin   *)
(* computes them from is Ranking.tla / C09.                                 *)
(***************************************************************************)
EXTENDS CgroupPath, TLC, SequencesExt

VARIABLES
  kw,      \* world: set of nodes [path, gen, pref, oomg, pop, key, elig, pidsCur]
  kcfg,    \* [plugin, pats, recursive, dry, always, kernel, reap, hooks]
  kx,      \* xattrs written by oomd: path -> [ooms, kill, uuid] (pre-existing values included)
  kph,     \* "idle" | "dfs" | "fired" | "polled" | "resume" | "resumed" | "attempt" | "ret"
  stack,   \* candidate stack, top = last; elements [path, gen]
  tried,   \* hasTriedToKillSomethingAlready
  hk,      \* outstanding hook invocation [has, inv, path, gen, stack]
  att,     \* attempt in progress
  kctx,    \* what the engine handed to this run: [deadline]
  know,    \* virtual clock, ms
  kstat,   \* oomd.kills
  kret,    \* return value decided, "" while running
  ktick,   \* tick number
  pgLast,  \* kill_by_pg_scan: tick on which it last sampled (-1: never)
  liveInv, \* hook invocation objects alive
  \* ---- history ----
  khist,   \* decisions of this invocation: [kind, path, nr], kind in attempt|skip|expand|fire
  keff,    \* side effects of this invocation: [kind, path, pid, victim]
  uuids,   \* kill uuids seen so far (interned)
  stale    \* cgroups that emptied in the middle of the current run: a populated flag cached earlier in the tick may still say 1

kvars == <<stale, kw, kcfg, kx, kph, stack, tried, hk, att, kctx, know, kstat, kret, ktick, pgLast,
           liveInv, khist, keff, uuids>>

----------------------------------------------------------------------------
PREFER == 1  NORMAL == 0  AVOID == -1

NoHook == [has |-> FALSE, inv |-> 0, path |-> <<>>, gen |-> 0, via |-> {}, stack |-> <<>>]
NoAtt == [victim |-> <<>>, via |-> {}, stage |-> "", nr |-> 0, uuid |-> 0, read |-> {}, opens |-> 0,
          reaping |-> FALSE, dry |-> FALSE]

Paths == {n.path : n \in kw}
Node(p) == CHOOSE n \in kw : n.path = p
Exists(p) == p \in Paths
IsUnder(p, anc) == Len(anc) <= Len(p) /\ SubSeq(p, 1, Len(anc)) = anc   \* p = anc or below
Subtree(p) == {q \in Paths : IsUnder(q, p)}
Children(p) == {q \in Paths : Len(q) = Len(p) + 1 /\ IsUnder(q, p)}

Roots == UNION {Glob(Paths, pat) : pat \in kcfg.pats} \cap (Paths \cup {<<>>})

Better(a, b) ==
  LET na == Node(a)  nb == Node(b) IN
  \/ na.pref > nb.pref
  \/ (na.pref = nb.pref /\ na.key > nb.key)

\* every ordering of the eligible members of S that respects Better (ties free)
Rankings(S) ==
  LET E == {p \in S : Node(p).elig} IN
  {o \in SetToSeqs(E) : \A i, j \in DOMAIN o : i < j => ~Better(o[j], o[i])}

\* via: the set of paths this candidate was ranked against (its peers, itself included)
Cand(p, peers) == [path |-> p, gen |-> Node(p).gen, via |-> peers]
\* push so that the best-ranked is on top (last)
PushRanked(st, o, peers) == st \o [i \in DOMAIN o |-> Cand(o[Len(o) + 1 - i], peers)]

FirstHook(p) ==
  LET m == SelectSeq(kcfg.hooks, LAMBDA h : \E pat \in h.pats : HookMatch(p, pat))
  IN IF m = <<>> THEN "" ELSE m[1].id

PastTimeout == kctx.deadline >= 0 /\ know > kctx.deadline

Deser(c) == Exists(c.path) /\ Node(c.path).gen = c.gen
\* resumeFromPrekillHook: a candidate that can no longer be found wipes everything below it
RECURSIVE DeserStack(_, _)
DeserStack(s, acc) ==
  IF s = <<>> THEN acc
  ELSE IF Deser(Head(s)) THEN DeserStack(Tail(s), Append(acc, Head(s)))
  ELSE DeserStack(Tail(s), <<>>)

\* kx[p] == [ooms |-> [trusted, user], kill |-> [trusted, user], uuid |-> [trusted, user]]
NoX == [ooms |-> [trusted |-> 0, user |-> 0], kill |-> [trusted |-> 0, user |-> 0],
        uuid |-> [trusted |-> 0, user |-> 0]]
XOf(p) == IF p \in DOMAIN kx THEN kx[p] ELSE NoX
SetX(p, field, ns, v) ==
  [q \in DOMAIN kx \cup {p} |-> IF q = p THEN [XOf(p) EXCEPT ![field][ns] = v] ELSE kx[q]]

HistV(kind, p, nr, via) == [kind |-> kind, path |-> p, nr |-> nr, via |-> via]
Hist(kind, p, nr) == HistV(kind, p, nr, {})
Eff(kind, p, pid) == [kind |-> kind, path |-> p, pid |-> pid, victim |-> att.victim]

----------------------------------------------------------------------------
KInit ==
  /\ kw = {} /\ kcfg = [plugin |-> "", pats |-> {}, recursive |-> FALSE, dry |-> FALSE,
                        always |-> FALSE, kernel |-> FALSE, reap |-> FALSE, hooks |-> <<>>]
  /\ kx = <<>> /\ kph = "idle" /\ stack = <<>> /\ tried = FALSE /\ hk = NoHook /\ att = NoAtt
  /\ kctx = [deadline |-> -1] /\ know = 0 /\ kstat = 0 /\ kret = "" /\ ktick = 0 /\ pgLast = -1
  /\ liveInv = {} /\ khist = <<>> /\ keff = {} /\ uuids = {} /\ stale = {}

\* a new execution: world, configuration, pre-existing xattrs
KReset(w, cfg, x, t) ==
  /\ kw' = w /\ kcfg' = cfg /\ kx' = x /\ know' = t
  /\ kph' = "idle" /\ stack' = <<>> /\ tried' = FALSE /\ hk' = NoHook /\ att' = NoAtt
  /\ kctx' = [deadline |-> -1] /\ kstat' = 0 /\ kret' = "" /\ ktick' = 0 /\ pgLast' = -1
  /\ liveInv' = {} /\ khist' = <<>> /\ keff' = {} /\ uuids' = {} /\ stale' = {}

\* environment between plugin invocations: cgroups come and go, metrics change, time passes
KEnv(w, t) ==
  /\ kph = "idle" /\ t >= know
  /\ kw' = w /\ know' = t /\ ktick' = ktick + 1
  \* xattrs live and die with the cgroup they are set on (a re-created cgroup has none)
  /\ kx' = [p \in {q \in DOMAIN kx : \E n \in w : n.path = q /\ \E m \in kw : m.path = q /\ m.gen = n.gen} |-> kx[p]]
  /\ khist' = <<>> /\ keff' = {}        \* history belongs to one invocation
  /\ stale' = {}                        \* a new tick reads everything afresh
  /\ UNCHANGED <<kcfg, kph, stack, tried, hk, att, kctx, kstat, kret, pgLast, liveInv, uuids>>

\* environment INSIDE a run: the last process of a cgroup exits (cgroup.events: populated 0, pids.current 0, empty
\* cgroup.procs).  What the tick already cached about it stays; what is read afresh (kernelkill re-reads
\* cgroup.events and pids.current right before writing cgroup.kill; every cgroup.procs read) sees the new state.
KEmpty(p) ==
  /\ kph \notin {"idle", "over", "sd"} /\ Exists(p) /\ Node(p).pop
  /\ kw' = (kw \ {Node(p)}) \cup {[Node(p) EXCEPT !.pop = FALSE, !.pidsCur = 0]}
  /\ stale' = stale \cup {p}
  /\ UNCHANGED <<kcfg, kx, kph, stack, tried, hk, att, kctx, know, kstat, kret, ktick, pgLast,
                 liveInv, khist, keff, uuids>>
\* environment inside a tick, before anything was attempted: a cgroup that is only reachable by descending from its
\* parent (not a candidate yet) is removed with its subtree right when oomd is about to open it through the parent's
\* directory.  Its name may still be in the parent's listing; it cannot be opened any more: it simply is no child.
OnStack(q) == \E i \in DOMAIN stack : IsUnder(stack[i].path, q)
KGone(q) ==
  \* (kill_by_pg_scan's sampling-only run walks the tree too: the specification is already at its return then)
  /\ (kph = "idle" \/ (kph = "dfs" /\ ~tried) \/ (kph = "ret" /\ kret = "ASYNC" /\ ~hk.has)) /\ Exists(q) /\ Len(q) >= 2 /\ ~OnStack(q)
  /\ \A i \in DOMAIN khist : ~IsUnder(khist[i].path, q)          \* nothing of it was looked at in this run
  /\ kw' = kw \ {n \in kw : IsUnder(n.path, q)}
  /\ UNCHANGED <<stale, kcfg, kx, kph, stack, tried, hk, att, kctx, know, kstat, kret, ktick, pgLast,
                 liveInv, khist, keff, uuids>>

\* the populated flag as the walk may see it: the current one, or the one cached before the cgroup emptied
PopSeen(p) == {Node(p).pop} \cup (IF p \in stale THEN {TRUE} ELSE {})

\* the clock moves inside a run (1 s breather between signalling rounds)
KClock(t) ==
  /\ t >= know /\ know' = t
  /\ UNCHANGED <<stale, kw, kcfg, kx, kph, stack, tried, hk, att, kctx, kstat, kret, ktick, pgLast,
                 liveInv, khist, keff, uuids>>

----------------------------------------------------------------------------
(* run() entry *)

KRun(deadline) ==
  /\ kph = "idle"
  /\ kctx' = [deadline |-> deadline]
  /\ khist' = IF hk.has THEN <<Hist("resume", hk.path, 0)>> ELSE <<>>
  /\ keff' = {}
  /\ IF kcfg.plugin = "kill_by_pg_scan" /\ pgLast # ktick - 1
     THEN \* second sampling tick needed: nothing happens
          /\ pgLast' = ktick /\ kph' = "ret" /\ kret' = "ASYNC"
          /\ UNCHANGED <<stack, tried, hk>>
     ELSE
     /\ pgLast' = IF kcfg.plugin = "kill_by_pg_scan" THEN ktick ELSE pgLast
     /\ kret' = ""
     /\ IF hk.has
        THEN /\ kph' = "resume" /\ UNCHANGED <<stack, tried, hk>>
        ELSE \E o \in Rankings(Roots \ {<<>>}) :
               /\ stack' = PushRanked(<<>>, o, Roots \ {<<>>})
               /\ tried' = FALSE /\ kph' = "dfs" /\ UNCHANGED hk
  /\ UNCHANGED <<stale, kw, kcfg, kx, att, know, kstat, ktick, liveInv, uuids>>

----------------------------------------------------------------------------
(* depth-first walk over the candidate stack (silent steps) *)

Top == stack[Len(stack)]
Popped == SubSeq(stack, 1, Len(stack) - 1)
DfsUnch == UNCHANGED <<stale, kw, kcfg, kx, hk, kctx, know, kstat, ktick, pgLast, liveInv, uuids>>

\* descend one level: the candidate is replaced by its ranked children
DfsExpand ==
  /\ kph = "dfs" /\ stack # <<>>
  /\ kcfg.recursive /\ ~Node(Top.path).oomg /\ Children(Top.path) # {}
  /\ \E o \in Rankings(Children(Top.path)) : stack' = PushRanked(Popped, o, Children(Top.path))
  /\ khist' = Append(khist, HistV("expand", Top.path, 0, Top.via))
  /\ UNCHANGED <<kph, tried, att, kret, keff>> /\ DfsUnch

Leaf == ~(kcfg.recursive /\ ~Node(Top.path).oomg /\ Children(Top.path) # {})

DfsSkipUnpopulated ==
  /\ kph = "dfs" /\ stack # <<>> /\ Leaf /\ FALSE \in PopSeen(Top.path)
  /\ stack' = Popped
  /\ khist' = Append(khist, HistV("skip", Top.path, 0, Top.via))
  /\ UNCHANGED <<kph, tried, att, kret, keff>> /\ DfsUnch

\* no hook applies (none matches, or the window is over): go straight to the kill
BeginAttempt(c) ==
  /\ att' = [NoAtt EXCEPT !.victim = c.path, !.via = c.via, !.dry = kcfg.dry,
                          !.stage = IF kcfg.dry THEN "kmsg" ELSE "uuidT"]
  /\ tried' = TRUE
  /\ kph' = "attempt"

DfsAttemptNoHook ==
  /\ kph = "dfs" /\ stack # <<>> /\ Leaf /\ TRUE \in PopSeen(Top.path)
  /\ (PastTimeout \/ FirstHook(Top.path) = "")
  /\ stack' = Popped
  /\ BeginAttempt(Top)
  /\ UNCHANGED <<kret, khist, keff>> /\ DfsUnch

\* candidates exhausted
DfsFail ==
  /\ kph = "dfs" /\ stack = <<>>
  /\ kph' = "ret" /\ kret' = "CONTINUE"
  /\ UNCHANGED <<stack, tried, att, khist, keff>> /\ DfsUnch

----------------------------------------------------------------------------
(* prekill hook protocol (observable events) *)

HookFire(hook, inv, path, gen) ==
  /\ kph = "dfs" /\ stack # <<>> /\ Leaf /\ TRUE \in PopSeen(Top.path)
  /\ ~PastTimeout /\ FirstHook(Top.path) # ""
  /\ hook = FirstHook(Top.path) /\ path = Top.path /\ gen = Top.gen
  /\ inv \notin liveInv /\ ~hk.has
  /\ liveInv' = liveInv \cup {inv}
  /\ hk' = [has |-> FALSE, inv |-> inv, path |-> path, gen |-> gen, via |-> Top.via, stack |-> Popped]
  /\ kph' = "fired"
  /\ khist' = Append(khist, HistV("fire", path, 0, Top.via))
  /\ UNCHANGED <<stale, kw, kcfg, kx, stack, tried, att, kctx, know, kstat, kret, ktick, pgLast, keff, uuids>>

\* didFinish() asked right after firing
HookPollInline(inv, res) ==
  /\ kph = "fired" /\ inv = hk.inv
  /\ IF res
     THEN /\ kph' = "polled" /\ UNCHANGED <<hk, kret>>          \* proceeds to the kill
     ELSE /\ hk' = [hk EXCEPT !.has = TRUE]                      \* wait across ticks
          /\ kph' = "ret" /\ kret' = "ASYNC"
  /\ UNCHANGED <<stale, kw, kcfg, kx, stack, tried, att, kctx, know, kstat, ktick, pgLast, liveInv,
                 khist, keff, uuids>>

\* the invocation object dies before anything is signalled
HookDestroy(inv) ==
  /\ inv \in liveInv /\ inv = hk.inv
  /\ \/ /\ kph = "polled"                 \* finished inline: kill the candidate on top
        /\ stack' = Popped /\ BeginAttempt(Top)
        /\ hk' = NoHook
        /\ UNCHANGED <<kret, khist>>
     \/ /\ kph = "resumed"               \* finished or timed out on a later tick
        /\ LET v == [path |-> hk.path, gen |-> hk.gen, via |-> hk.via] IN
           IF Deser(v)
           THEN /\ stack' = DeserStack(hk.stack, <<>>) /\ BeginAttempt(v)
                /\ UNCHANGED <<kret, khist>>
           ELSE \* removed or re-created while the hook ran: not killed, cycle over
                /\ stack' = <<>> /\ kph' = "ret" /\ kret' = "CONTINUE"
                /\ khist' = Append(khist, Hist("gone", hk.path, 0))
                /\ UNCHANGED <<att, tried>>
        /\ hk' = NoHook
  /\ liveInv' = liveInv \ {inv}
  /\ UNCHANGED <<stale, kw, kcfg, kx, kctx, know, kstat, ktick, pgLast, keff, uuids>>

\* next tick: poll again; past the window the kill goes ahead regardless
HookPollResume(inv, res) ==
  /\ kph = "resume" /\ hk.has /\ inv = hk.inv
  /\ IF res \/ PastTimeout
     THEN kph' = "resumed" /\ UNCHANGED kret
     ELSE kph' = "ret" /\ kret' = "ASYNC"
  /\ UNCHANGED <<stale, kw, kcfg, kx, stack, tried, hk, att, kctx, know, kstat, ktick, pgLast, liveInv,
                 khist, keff, uuids>>

----------------------------------------------------------------------------
(* one kill attempt (observable events) *)

AttUnch == UNCHANGED <<stale, kw, kcfg, stack, tried, hk, kctx, know, ktick, pgLast, liveInv, khist>>
InAtt(stage) == kph = "attempt" /\ att.stage = stage

\* trusted./user.oomd_kill_uuid := this attempt's fresh id
XUuid(path, ns, u) ==
  /\ \/ (InAtt("uuidT") /\ ns = "trusted" /\ u \notin uuids /\ u # 0)
     \/ (InAtt("uuidU") /\ ns = "user" /\ u = att.uuid)
  /\ path = att.victim
  /\ att' = [att EXCEPT !.uuid = u, !.stage = IF ns = "trusted" THEN "uuidU" ELSE "oomsT"]
  /\ uuids' = uuids \cup {u}
  /\ kx' = SetX(path, "uuid", ns, u)
  /\ keff' = keff \cup {Eff("xattr", path, 0)}
  /\ UNCHANGED <<kph, kstat, kret>> /\ AttUnch

\* oomd_ooms incremented by exactly one, in each name space independently
XOoms(path, ns, v) ==
  /\ \/ (InAtt("oomsT") /\ ns = "trusted")
     \/ (InAtt("oomsU") /\ ns = "user")
  /\ v = XOf(path).ooms[ns] + 1
  /\ path = att.victim
  /\ kx' = SetX(path, "ooms", ns, v)
  /\ att' = [att EXCEPT !.stage = IF ns = "trusted" THEN "oomsU"
                                  ELSE IF kcfg.kernel THEN "freeze" ELSE "signal"]
  /\ keff' = keff \cup {Eff("xattr", path, 0)}
  /\ UNCHANGED <<kph, kstat, kret, uuids>> /\ AttUnch

\* cgroup.procs of the victim or one of its descendants is opened (signalling round or reaping)
ProcsOpen(path, pids) ==
  /\ InAtt("signal")
  /\ IsUnder(path, att.victim)
  /\ att' = [att EXCEPT !.read = pids, !.opens = IF path = att.victim THEN @ + 1 ELSE @]
  /\ (path = att.victim => att.opens < 11)      \* at most 10 rounds + the reaping pass
  /\ UNCHANGED <<kph, kx, kstat, kret, keff, uuids>> /\ AttUnch

\* SIGKILL to a positive pid just read from the victim's subtree
Signal(pid, sig, ok) ==
  /\ InAtt("signal") /\ ~att.reaping
  /\ sig = 9 /\ pid > 0 /\ pid \in att.read
  \* every pid of a read is signalled at most once
  /\ att' = [att EXCEPT !.nr = IF ok THEN @ + 1 ELSE @, !.read = @ \ {pid}]
  /\ keff' = keff \cup {Eff("signal", att.victim, pid)}
  /\ UNCHANGED <<kph, kx, kstat, kret, uuids>> /\ AttUnch

\* process_mrelease on pids of the subtree, only after signalling, only if something was killed
Reap(pid) ==
  /\ InAtt("signal") /\ kcfg.reap /\ att.nr > 0
  /\ pid \in att.read
  /\ att' = [att EXCEPT !.reaping = TRUE, !.read = @ \ {pid}]
  /\ keff' = keff \cup {Eff("reap", att.victim, pid)}
  /\ UNCHANGED <<kph, kx, kstat, kret, uuids>> /\ AttUnch

\* kernelkill: freeze, then cgroup.kill; the kernel reports pids.current as the count
CtlFreeze(path, val) ==
  /\ InAtt("freeze") /\ path = att.victim /\ val = "1"
  /\ att' = [att EXCEPT !.stage = "kkill"]
  /\ keff' = keff \cup {Eff("ctl", path, 0)}
  /\ UNCHANGED <<kph, kx, kstat, kret, uuids>> /\ AttUnch

CtlKill(path, val) ==
  /\ InAtt("kkill") /\ path = att.victim /\ val = "1" /\ Node(path).pop
  /\ att' = [att EXCEPT !.stage = "signal", !.reaping = TRUE, !.opens = 10,
                        !.nr = IF Node(path).pidsCur > 0 THEN Node(path).pidsCur ELSE 1]
  /\ keff' = keff \cup {Eff("ctl", path, 0)}
  /\ UNCHANGED <<kph, kx, kstat, kret, uuids>> /\ AttUnch

\* oomd_kill increased by exactly the number of successful SIGKILLs
XKill(path, ns, v) ==
  /\ \/ (InAtt("signal") /\ ns = "trusted")
     \/ (InAtt("killU") /\ ns = "user")
  /\ v = XOf(path).kill[ns] + att.nr
  /\ path = att.victim
  /\ kx' = SetX(path, "kill", ns, v)
  /\ att' = [att EXCEPT !.stage = IF ns = "trusted" THEN "killU"
                                  ELSE IF att.nr > 0 THEN "kmsg" ELSE "end"]
  /\ keff' = keff \cup {Eff("xattr", path, 0)}
  /\ UNCHANGED <<kph, kstat, kret, uuids>> /\ AttUnch

\* the structured kill record; counted unless dry
Kmsg(cg, plugin, dry) ==
  /\ InAtt("kmsg")
  /\ cg = att.victim /\ plugin = kcfg.plugin /\ dry = att.dry
  /\ kstat' = IF att.dry THEN kstat ELSE kstat + 1
  /\ att' = [att EXCEPT !.stage = "end", !.nr = IF att.dry THEN 1 ELSE @]
  /\ UNCHANGED <<kph, kx, kret, keff, uuids>> /\ AttUnch

\* attempt over: success ends the invocation, failure falls back to the next candidate
AttemptEnd ==
  /\ InAtt("end")
  /\ khist' = Append(khist, HistV("attempt", att.victim, att.nr, att.via))
  /\ IF att.nr > 0
     THEN /\ kph' = "ret" /\ kret' = IF kcfg.always THEN "CONTINUE" ELSE "STOP"
          /\ stack' = <<>>
     ELSE /\ kph' = "dfs" /\ UNCHANGED <<kret, stack>>
  /\ att' = NoAtt
  /\ UNCHANGED <<stale, kw, kcfg, kx, tried, hk, kctx, know, kstat, ktick, pgLast, liveInv, keff, uuids>>

\* kernelkill on a cgroup found unpopulated after freezing: nothing killed, nothing counted
AttemptEndUnpopulated ==
  /\ InAtt("kkill") /\ ~Node(att.victim).pop
  /\ att' = [att EXCEPT !.stage = "end"]
  /\ UNCHANGED <<kph, kx, kstat, kret, keff, uuids>> /\ AttUnch

KRet(ret) ==
  /\ kph = "ret" /\ ret = kret
  /\ kph' = "idle"
  /\ UNCHANGED <<stale, kw, kcfg, kx, stack, tried, hk, att, kctx, know, kstat, kret, ktick, pgLast,
                 liveInv, khist, keff, uuids>>

KSilent == DfsExpand \/ DfsSkipUnpopulated \/ DfsAttemptNoHook \/ DfsFail \/ AttemptEnd
           \/ AttemptEndUnpopulated

----------------------------------------------------------------------------
(* PROPERTIES *)

Attempts == SelectSeq(khist, LAMBDA h : h.kind = "attempt")
Decided(p) == \E i \in DOMAIN khist : khist[i].path = p /\ khist[i].kind \in {"attempt", "skip", "expand", "gone"}

\* C01
Containment ==
  /\ \A e \in keff :
       /\ IsUnder(e.path, e.victim)
       /\ e.kind \in {"xattr", "ctl"} => e.path = e.victim
       /\ e.kind = "signal" => e.pid > 0
  /\ \A i \in DOMAIN khist : khist[i].kind = "attempt" =>
       \E r \in Roots : \/ khist[i].path = r
                        \/ (kcfg.recursive /\ IsUnder(khist[i].path, r))
  /\ \A i \in DOMAIN Attempts : i < Len(Attempts) => Attempts[i].nr = 0     \* stops at first success
  /\ (kph = "attempt" => \A i \in DOMAIN Attempts : Attempts[i].nr = 0)


\* C03: whoever is tried, every strictly better eligible peer has been dealt with before
\* (a cycle resumed after a hook wait follows the ranking of the tick that started it)
Resumed == \E i \in DOMAIN khist : khist[i].kind = "resume"
OrderRespected ==
  \A i \in DOMAIN khist : khist[i].kind \in {"attempt", "fire"} /\ ~Resumed =>
    \A p \in khist[i].via \cap Paths :
      (p # khist[i].path /\ Node(p).elig /\ Better(p, khist[i].path)) =>
        \/ \E j \in 1..(i-1) : khist[j].path = p /\ khist[j].kind \in {"attempt", "skip", "expand"}
        \/ ~Exists(p)
NoDescentBelowOomGroup == \A i \in DOMAIN khist : khist[i].kind = "expand" => ~Node(khist[i].path).oomg /\ kcfg.recursive
UnpopulatedNeverAttempted ==
  \A i \in DOMAIN khist : khist[i].kind \in {"attempt", "fire"} /\ ~Resumed =>
     (Node(khist[i].path).pop \/ khist[i].path \in stale)

\* C04
DryIsPure == kcfg.dry => keff = {} /\ kstat = 0

\* C07
NoSignalWhileHookOutstanding == kph = "attempt" => ~hk.has /\ hk.inv \notin liveInv
AtMostOneInvocation == Cardinality(liveInv) <= 1
\* one hook per victim ATTEMPT: a cgroup reachable through two overlapping patterns can be a candidate twice in one
\* run (after its own failed kill); then it is attempted - and its hook fired - once per candidacy, never twice
\* without a kill attempt on it in between
OneFirePerVictim ==
  \A i, j \in DOMAIN khist : (i < j /\ khist[i].kind = "fire" /\ khist[j].kind = "fire" /\ khist[i].path = khist[j].path) =>
     \E k \in DOMAIN khist : i < k /\ k < j /\ khist[k].kind = "attempt" /\ khist[k].path = khist[i].path

\* C17
RetMapping ==
  kph = "ret" =>
    /\ kret = "STOP" => (Attempts # <<>> /\ Attempts[Len(Attempts)].nr > 0 /\ ~kcfg.always)
    /\ kret = "ASYNC" => (hk.has \/ kcfg.plugin = "kill_by_pg_scan")
    /\ kret = "CONTINUE" => (kcfg.always \/ Attempts = <<>> \/ Attempts[Len(Attempts)].nr = 0)
=============================================================================
