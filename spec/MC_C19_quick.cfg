SPECIFICATION MCSpec
CONSTANTS
  Threads = {1, 2}
  OpsPerThread = 2
  Conns = 2
INVARIANTS HandlerAccounting NoHandlerAfterShutdown
PROPERTY ShutdownCompletes
CHECK_DEADLOCK FALSE
