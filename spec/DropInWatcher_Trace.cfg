SPECIFICATION TraceSpec
CONSTANTS
  Names = {"a.json", "b.json", "c", ".hid.json"}
  DotNames = {".hid.json"}
  RemoveOnInvalid = TRUE
  Less <- TrLess
CONSTRAINT TraceProgress
POSTCONDITION TraceAccepted
INVARIANTS LockDiscipline NoDotActive
CHECK_DEADLOCK FALSE
