SPECIFICATION MCWitSpec
CONSTANTS
  MCShapes <- ShapeTiny
  MCPats <- PatsStar
  MCHooks <- HooksTwo
  MCFlags <- FlagsWit
  MCAttrs <- AttrWit
  MCPlugins = {"kill_by_memory_size_or_growth"}
  MaxTicksK = 2
  TimeoutsK = {2}
  MaxOpens = 1
  EnvEdits = TRUE
  MidRun = "no"
CONSTRAINT WitnessAcc
POSTCONDITION WitnessReport
CHECK_DEADLOCK FALSE
