-------------------------------- MODULE Tick --------------------------------
(***************************************************************************)
(* C10: a tick survives missing, empty, unreadable or vanishing files.      *)
(*                                                                          *)
(* A tick is the sequence of file accesses the configured plugins make;     *)
(* every access is answered through a fault filter (ok / absent / empty /   *)
(* unreadable) and cgroups may be removed or re-created between any two     *)
(* accesses.  A statistic whose access failed is unavailable; consumers     *)
(* skip such a cgroup.  There is NO abort action: the only way out of a     *)
(* tick is TickEnd, so an execution that crashed, threw, tripped a          *)
(* sanitizer or hung (its trace ends in "Abort") is not a behaviour.        *)
(* Kill containment (C01) is kept as an invariant under all faults.         *)
(***************************************************************************)
EXTENDS Integers, Sequences, FiniteSets, TLC

VARIABLES
  tph,      \* "idle" | "tick" | "over"
  tno,      \* tick number
  nacc,     \* file accesses so far in this tick
  readPids, \* pids listed by the cgroup.procs files opened in this tick: path -> set of pids
  sigs,     \* signals sent in this tick: set of [pid, sig]
  stat,     \* model only: field -> "unread" | "avail" | "unavail"
  used      \* model only: fields a consumer acted on in this tick

tvars0 == <<tph, tno, nacc, readPids, sigs, stat, used>>

TInit == tph = "idle" /\ tno = 0 /\ nacc = 0 /\ readPids = <<>> /\ sigs = {} /\ stat = [x \in {"_"} |-> "unread"] /\ used = {}

TReset == /\ tph' = "idle" /\ tno' = 0 /\ nacc' = 0 /\ readPids' = <<>> /\ sigs' = {} /\ stat' = [x \in {"_"} |-> "unread"] /\ used' = {}

TickBegin(n) ==
  /\ tph = "idle" /\ n = tno + 1
  /\ tph' = "tick" /\ tno' = n /\ nacc' = 0 /\ readPids' = <<>> /\ sigs' = {} /\ stat' = [x \in {"_"} |-> "unread"] /\ used' = {}

\* a cgroup.procs file is opened (content as of that instant)
ProcsOpen(path, pids) ==
  /\ tph = "tick"
  /\ readPids' = [p \in DOMAIN readPids \cup {path} |->
                    IF p = path THEN (IF p \in DOMAIN readPids THEN readPids[p] ELSE {}) \cup pids ELSE readPids[p]]
  /\ nacc' = nacc + 1
  /\ UNCHANGED <<tph, tno, sigs, stat, used>>

\* containment under faults: SIGKILL, to a positive pid that some cgroup.procs opened in this tick listed
Signal(pid, sig) ==
  /\ tph = "tick"
  /\ sig = 9 /\ pid > 0
  /\ \E p \in DOMAIN readPids : pid \in readPids[p]
  /\ sigs' = sigs \cup {[pid |-> pid, sig |-> sig]}
  /\ UNCHANGED <<tph, tno, nacc, readPids, stat, used>>

TickEnd(n) ==
  /\ tph = "tick" /\ n = tno
  /\ tph' = "idle"
  /\ UNCHANGED <<tno, nacc, readPids, sigs, stat, used>>

Over == tph = "idle" /\ tph' = "over" /\ UNCHANGED <<tno, nacc, readPids, sigs, stat, used>>

\* ---------------------------------------------------------------- design model (stage S)
\* every statistic read goes through the fault filter; a consumer may act only on available ones
StatOf(f) == IF f \in DOMAIN stat THEN stat[f] ELSE "unread"
Read(f, res) ==
  /\ tph = "tick" /\ StatOf(f) # "avail"                                \* failed reads are retried, good ones cached
  /\ stat' = [g \in DOMAIN stat \cup {f} |-> IF g = f THEN (IF res = "ok" THEN "avail" ELSE "unavail") ELSE stat[g]]
  /\ nacc' = nacc + 1
  /\ UNCHANGED <<tph, tno, readPids, sigs, used>>
Consume(f) ==
  /\ tph = "tick" /\ StatOf(f) = "avail"
  /\ used' = used \cup {f}
  /\ UNCHANGED <<tph, tno, nacc, readPids, sigs, stat>>

\* binding of "unavailable, not guessed" to the real accessors: asked for a statistic whose only source is under a
\* file-level fault, the accessor must answer "unavailable" (stage B: StatQuery events of tick_driver)
Query(avail) == tph = "idle" /\ avail = FALSE /\ UNCHANGED <<tph, tno, nacc, readPids, sigs, stat, used>>

UnavailableNotGuessed == \A f \in used : StatOf(f) = "avail"
Containment == \A s \in sigs : s.sig = 9 /\ s.pid > 0 /\ \E p \in DOMAIN readPids : s.pid \in readPids[p]
=============================================================================
