SPECIFICATION MCSpec
CONSTANTS
  MCShapes <- ShapeSmall
  MCPats <- PatsTwo
  MCHooks <- HooksNone
  MCFlags <- FlagsMain
  MCAttrs <- AttrSet
  MCPlugins = {"kill_by_memory_size_or_growth"}
  MaxTicksK = 1
  TimeoutsK = {2}
  MaxOpens = 2
  EnvEdits = FALSE
  MidRun = "cand"
INVARIANTS Containment OrderRespected NoDescentBelowOomGroup UnpopulatedNeverAttempted DryIsPure NoSignalWhileHookOutstanding AtMostOneInvocation OneFirePerVictim RetMapping NoFireAfterWindow
CHECK_DEADLOCK FALSE
