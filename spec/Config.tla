------------------------------- MODULE Config -------------------------------
(***************************************************************************)
(* C12: a configuration is either rejected or honoured exactly.  A         *)
(* decision model in three layers:                                         *)
(*   1. IR validity and the compile result (order and arguments of the     *)
(*      plugin instances) over a lattice of value classes;                 *)
(*   2. JSON value shapes at every position of the document;               *)
(*   3. number / size / percent strings, character by character.           *)
(* The model supplies verdict and structure; exact 64-bit values of        *)
(* accepted size strings are evaluated by the replay driver from the       *)
(* structure (TLC integers are 32-bit).                                    *)
(***************************************************************************)
EXTENDS Integers, Sequences, FiniteSets, TLC

----------------------------------------------------------------------------
(* Layer 3: strings.  A string is a sequence of one-character strings.      *)

Digits == {"0", "1", "2", "3", "4", "5", "6", "7", "8", "9"}
IsDigits(s) == s # <<>> /\ \A i \in DOMAIN s : s[i] \in Digits

\* decimal integer without sign, at least one digit
IsNat(s) == IsDigits(s)
\* signed decimal integer: optional "-" then digits
IsInt(s) == IsNat(s) \/ (Len(s) >= 2 /\ s[1] = "-" /\ IsNat(Tail(s)))
\* digits [ "." digits ]  (plain decimal; no exponent, no hex, no nan/inf)
IsDecimal(s) ==
  \/ IsDigits(s)
  \/ \E i \in DOMAIN s : /\ s[i] = "."
                         /\ IsDigits(SubSeq(s, 1, i - 1))
                         /\ IsDigits(SubSeq(s, i + 1, Len(s)))
IsSignedDecimal(s) == IsDecimal(s) \/ (Len(s) >= 2 /\ s[1] = "-" /\ IsDecimal(Tail(s)))

\* magnitude comparison of digit strings (both without leading zeros issues handled by length)
StripZeros(s) == IF s = <<>> THEN <<>>
                 ELSE LET nz == {i \in DOMAIN s : s[i] # "0"} IN
                      IF nz = {} THEN <<"0">> ELSE SubSeq(s, CHOOSE i \in nz : \A j \in nz : i <= j, Len(s))
DigitVal(c) == CASE c = "0" -> 0 [] c = "1" -> 1 [] c = "2" -> 2 [] c = "3" -> 3 [] c = "4" -> 4
                 [] c = "5" -> 5 [] c = "6" -> 6 [] c = "7" -> 7 [] c = "8" -> 8 [] c = "9" -> 9
RECURSIVE LeqDigits(_, _)
LeqDigits(a, b) ==   \* a <= b as numbers; a, b stripped of leading zeros
  IF Len(a) # Len(b) THEN Len(a) < Len(b)
  ELSE IF a = <<>> THEN TRUE
  ELSE IF DigitVal(Head(a)) # DigitVal(Head(b)) THEN DigitVal(Head(a)) < DigitVal(Head(b))
  ELSE LeqDigits(Tail(a), Tail(b))
FitsNat(s, maxDigits) == IsNat(s) /\ LeqDigits(StripZeros(s), maxDigits)

Max31 == <<"2","1","4","7","4","8","3","6","4","7">>                                \* 2^31 - 1
Max63 == <<"9","2","2","3","3","7","2","0","3","6","8","5","4","7","7","5","8","0","7">>  \* 2^63 - 1

\* an argument of type "non-negative int" (post_action_delay, prekill_hook_timeout, count, ...)
UIntOk(s) == FitsNat(s, Max31)
\* an argument of type int / int64 (signed)
Abs31 == <<"2","1","4","7","4","8","3","6","4","8">>                                \* 2^31 (magnitude of the least int)
Abs63 == <<"9","2","2","3","3","7","2","0","3","6","8","5","4","7","7","5","8","0","8">>  \* 2^63
IntOk(s) == \/ FitsNat(s, Max31)
            \/ (Len(s) >= 2 /\ s[1] = "-" /\ FitsNat(Tail(s), Abs31))
Int64Ok(s) == \/ FitsNat(s, Max63)
              \/ (Len(s) >= 2 /\ s[1] = "-" /\ FitsNat(Tail(s), Abs63))
\* floating point argument: a finite plain decimal
FloatOk(s) == IsSignedDecimal(s)
BoolOk(s) == s \in {<<"t","r","u","e">>, <<"T","r","u","e">>, <<"1">>, <<"f","a","l","s","e">>, <<"F","a","l","s","e">>, <<"0">>}

\* ---- sizes:  component ::= decimal [unit], components separated by optional spaces; case-insensitive
Units == {"k", "m", "g", "t", "K", "M", "G", "T"}
Unspace(s) == SelectSeq(s, LAMBDA c : c # " ")
\* split an unspaced string after every unit letter
RECURSIVE Comps(_, _, _)
Comps(s, cur, acc) ==
  IF s = <<>> THEN (IF cur = <<>> THEN acc ELSE Append(acc, [num |-> cur, unit |-> ""]))
  ELSE IF Head(s) \in Units THEN Comps(Tail(s), <<>>, Append(acc, [num |-> cur, unit |-> Head(s)]))
  ELSE Comps(Tail(s), Append(cur, Head(s)), acc)
SizeComps(s) == Comps(Unspace(s), <<>>, <<>>)
SizeShapeOk(s) ==
  LET cs == SizeComps(s) IN
  /\ cs # <<>>
  /\ \A i \in DOMAIN cs : IsDecimal(cs[i].num)
\* (whether the total fits in 63 bits is decided by the replay driver with exact arithmetic)

\* percent: N% with integer 0 <= N <= 100
Hundred == <<"1","0","0">>
PercentOk(s) == /\ Len(s) >= 2 /\ s[Len(s)] = "%"
                /\ FitsNat(SubSeq(s, 1, Len(s) - 1), Hundred)
\* threshold of memory_above / kill_by_swap_usage: percent, or bare integer (megabytes), or size
IsBareMB(s) == IsNat(s)
ThresholdShapeOk(s) == PercentOk(s) \/ SizeShapeOk(s)

----------------------------------------------------------------------------
(* Layer 1: IR validity over abstract parts.                                 *)
(*   plugin == [kind, hasId, extra, delay]                                   *)
(*     kind  : "det" | "act" | "unknown" | "noname"                          *)
(*     hasId : the required argument is present                              *)
(*     extra : an argument the plugin does not declare is given              *)
(*     delay : value string of the optional uint argument, or <<"~">> absent *)
Absent == <<"~">>

PluginOk(p, role) ==
  /\ p.kind = role
  /\ p.hasId
  /\ ~p.extra
  /\ (p.delay = Absent \/ UIntOk(p.delay))

GroupOk(g) == /\ g.named /\ g.dets # <<>>
              /\ \A i \in DOMAIN g.dets : PluginOk(g.dets[i], "det")

SilenceOk(s) == s \in {"", "engine", "plugins", "engine,plugins", " plugins , engine "}

\* rs == [named, groups, acts, pad, pht, silence]; pad/pht: value string or Absent (empty = not given)
RulesetOk(rs, dropin) ==
  /\ rs.named
  /\ SilenceOk(rs.silence)
  /\ (dropin \/ (rs.groups # <<>> /\ rs.acts # <<>>))
  /\ (rs.pad = Absent \/ UIntOk(rs.pad))
  /\ (rs.pht = Absent \/ UIntOk(rs.pht))
  /\ \A i \in DOMAIN rs.groups : GroupOk(rs.groups[i])
  /\ \A i \in DOMAIN rs.acts : PluginOk(rs.acts[i], "act")

RootOk(root) == \A i \in DOMAIN root : RulesetOk(root[i], FALSE)

\* the plugin instances of an accepted configuration, in instantiation order
RECURSIVE Flat(_)
Flat(ss) == IF ss = <<>> THEN <<>> ELSE Head(ss) \o Flat(Tail(ss))
RsInstances(rs) ==
  Flat([g \in DOMAIN rs.groups |-> [k \in DOMAIN rs.groups[g].dets |-> rs.groups[g].dets[k].tag]])
  \o [k \in DOMAIN rs.acts |-> rs.acts[k].tag]
Instances(root) == Flat([i \in DOMAIN root |-> RsInstances(root[i])])

----------------------------------------------------------------------------
(* Layer 2: JSON shapes.  Every position of the document takes the expected  *)
(* shape or one of the others; a wrong shape never yields an accepted        *)
(* configuration that silently differs from the text - it is rejected, or    *)
(* (where the format defines the position as optional) ignored as absent.    *)
Shapes == {"expected", "null", "bool", "number", "string", "array", "object", "missing"}
Positions == {"root", "rulesets", "ruleset", "ruleset.name", "detectors", "group", "group.name", "plugin",
              "plugin.name", "plugin.args", "arg.value", "actions", "drop-in", "drop-in.flag",
              "post_action_delay", "silence-logs"}
ExpectedType(pos) ==
  CASE pos \in {"root", "ruleset", "plugin", "plugin.args", "drop-in"} -> "object"
    [] pos \in {"rulesets", "detectors", "group", "actions"} -> "array"
    [] pos = "drop-in.flag" -> "bool"
    [] OTHER -> "string"
Scalars == {"bool", "number", "string"}
\* positions whose absence is legal (defaults apply)
Optional == {"drop-in", "drop-in.flag", "post_action_delay", "silence-logs", "rulesets", "ruleset"}
\* "accept": the document must be accepted and honoured; "reject": it must be rejected;
\* "either": the format leaves it open (scalar written as another scalar, null for an optional part)
ShapeVerdict(pos, shape) ==
  IF shape = "expected" THEN "accept"
  ELSE IF pos \in {"plugin.name", "ruleset.name", "group.name", "silence-logs", "post_action_delay", "arg.value"}
          /\ shape = "string" THEN "either"      \* a different string: validity depends on its content
  ELSE IF shape = ExpectedType(pos) THEN "either"  \* right JSON type, different content
  ELSE IF shape = "missing" THEN (IF pos \in Optional THEN "accept" ELSE "reject")
  ELSE IF shape = "null" THEN (IF pos \in Optional \/ pos = "root" THEN "either" ELSE "reject")
  ELSE IF ExpectedType(pos) \in Scalars /\ shape \in Scalars THEN "either"
  ELSE "reject"                                     \* container where a scalar belongs or vice versa
=============================================================================
