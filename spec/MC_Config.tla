----------------------------- MODULE MC_Config -----------------------------
(* C12 stage S + case generation.  Every case is one initial state; the laws of the decision   *)
(* model are invariants; the cases are written out with the model's verdicts and replayed on   *)
(* the real parser / compiler / argument parsers by config_replay.cpp.                         *)
EXTENDS Config, Json, IOUtils, SequencesExt

CONSTANTS NumLen, SizeLen, MaxMut

\* ---------------------------------------------------------------- layer 3 domains
NumSigma == {"0", "1", "9", "-", ".", "x", "e"}
SizeSigma == {"1", "5", ".", "K", "m", " ", "%", "x"}
Strs(S, n) == UNION {[1..k -> S] : k \in 0..n}
Chars(str) == str   \* (literals below are written as tuples already)

SpecialNums == { <<"2","1","4","7","4","8","3","6","4","7">>, <<"2","1","4","7","4","8","3","6","4","8">>,
                 <<"9","9","9","9","9","9","9","9","9","9","9">>,
                 <<"9","2","2","3","3","7","2","0","3","6","8","5","4","7","7","5","8","0","7">>,
                 <<"9","2","2","3","3","7","2","0","3","6","8","5","4","7","7","5","8","0","8">>,
                 <<"1","e","3","0">>, <<"n","a","n">>, <<"i","n","f">>, <<"0","x","1","0">>, <<"1",".","2","5">>,
                 <<"-","1">>, <<"1","2","a","b","c">>, <<"0","0","7">>, <<"1","5">>,
                 \* around 2^32 and 2^64: a reader that narrows or wraps turns these into small numbers
                 <<"4","2","9","4","9","6","7","2","9","5">>,
                 <<"4","2","9","4","9","6","7","2","9","6">>,
                 <<"4","2","9","4","9","6","7","3","2","6">>,
                 <<"8","5","8","9","9","3","4","5","9","2">>,
                 <<"-","4","2","9","4","9","6","7","2","4","6">>,
                 <<"-","2","1","4","7","4","8","3","6","4","8">>,
                 <<"-","2","1","4","7","4","8","3","6","4","9">>,
                 <<"1","8","4","4","6","7","4","4","0","7","3","7","0","9","5","5","1","6","1","5">>,
                 <<"1","8","4","4","6","7","4","4","0","7","3","7","0","9","5","5","1","6","1","6">>,
                 <<"1","8","4","4","6","7","4","4","0","7","3","7","0","9","5","5","1","6","4","6">> }
SpecialSizes == { <<"1",".","5","G"," ","3","2","K">>, <<"1",".","5","M"," ","3","2","K"," ","5","1","2">>,
                  <<"8","1","9","2">>, <<"1","e","3">>, <<"n","a","n">>, <<"i","n","f">>, <<"0","x","1","0">>,
                  <<"9","9","9","9","9","9","9","9","9","9","9","T">>, <<"8","3","8","8","6","0","8","T">>,
                  <<"4","1","9","4","3","0","4","T">>, <<"1","0","0","%">>, <<"1","0","1","%">>,
                  <<"5","0","a","b","c","%">>, <<"9","0","0","7","1","9","9","2","5","4","7","4","0","9","9","3">>,
                  <<"1",".","5","M","K">>, <<"?","?">>, <<"1",".",".","5","K">>, <<"3","g","2","t">>,
                  <<"9","9","9","9","9","9","9","9","9","9","9","9","9">>, <<"5","0","%","%">>, <<"%">>,
                  <<"1","2","8","m"," "," ","1","k">> }

\* a size/percent string is outside the documented grammar in a way the documentation does not
\* settle (leading/trailing "." in a number): neither accept nor reject is demanded
DotEdge(num) == num # <<>> /\ (Head(num) = "." \/ num[Len(num)] = ".") /\
                \A i \in DOMAIN num : num[i] \in Digits \cup {"."}
SizeUnspecified(s) == \E i \in DOMAIN SizeComps(s) : DotEdge(SizeComps(s)[i].num) /\ Len(SizeComps(s)[i].num) >= 2

\* ---------------------------------------------------------------- layer 1 domain: base IR + mutations
Pl(tag, kind, hasId, extra, delay) == [tag |-> tag, kind |-> kind, hasId |-> hasId, extra |-> extra, delay |-> delay]
BaseRoot ==
  << [named |-> TRUE, silence |-> "", pad |-> Absent, pht |-> Absent,
      groups |-> << [named |-> TRUE, dets |-> <<Pl("r0.g0.d0", "det", TRUE, FALSE, Absent), Pl("r0.g0.d1", "det", TRUE, FALSE, Absent)>>],
                    [named |-> TRUE, dets |-> <<Pl("r0.g1.d0", "det", TRUE, FALSE, Absent)>>] >>,
      acts |-> <<Pl("r0.a0", "act", TRUE, FALSE, Absent), Pl("r0.a1", "act", TRUE, FALSE, <<"3">>)>>],
     [named |-> TRUE, silence |-> "engine", pad |-> <<"0">>, pht |-> <<"2">>,
      groups |-> << [named |-> TRUE, dets |-> <<Pl("r1.g0.d0", "det", TRUE, FALSE, Absent)>>] >>,
      acts |-> <<Pl("r1.a0", "act", TRUE, FALSE, Absent)>>] >>

GoodVals == {<<"0">>, <<"7">>, <<"2","1","4","7","4","8","3","6","4","7">>}
BadVals == {<<"-","1">>, <<"a","b","c">>, <<"3","x">>, <<"1",".","5">>, <<"9","9","9","9","9","9","9","9","9","9","9">>,
            <<"1","e","3">>, <<"2","1","4","7","4","8","3","6","4","8">>}
\* a mutation: [at, what, val]; at addresses a ruleset / group / plugin of BaseRoot
Muts ==
  {[at |-> <<r>>, what |-> w, val |-> <<>>] : r \in {1, 2}, w \in {"noname", "badsilence", "nogroups", "noacts"}}
  \cup {[at |-> <<r>>, what |-> w, val |-> v] : r \in {1, 2}, w \in {"pad", "pht"}, v \in GoodVals \cup BadVals}
  \cup {[at |-> <<1, g>>, what |-> w, val |-> <<>>] : g \in {1, 2}, w \in {"gnoname", "gnodets"}}
  \cup {[at |-> <<1, 1, k>>, what |-> w, val |-> <<>>] : k \in {1, 2}, w \in {"unknown", "noplugname", "noid", "extra"}}
  \cup {[at |-> <<1, 0, k>>, what |-> w, val |-> <<>>] : k \in {1, 2}, w \in {"unknown", "noplugname", "noid", "extra"}}
  \cup {[at |-> <<1, 0, k>>, what |-> "delay", val |-> v] : k \in {1, 2}, v \in GoodVals \cup BadVals \cup {<<>>}}
  \cup {[at |-> <<1, 1, 1>>, what |-> "delay", val |-> v] : v \in GoodVals \cup BadVals}

MutPlugin(p, m) ==
  CASE m.what = "unknown" -> [p EXCEPT !.kind = "unknown"]
    [] m.what = "noplugname" -> [p EXCEPT !.kind = "noname"]
    [] m.what = "noid" -> [p EXCEPT !.hasId = FALSE]
    [] m.what = "extra" -> [p EXCEPT !.extra = TRUE]
    [] m.what = "delay" -> [p EXCEPT !.delay = m.val]
    [] OTHER -> p
Apply(root, m) ==
  LET r == m.at[1] IN
  IF Len(m.at) = 1 THEN
    [root EXCEPT ![r] = CASE m.what = "noname" -> [@ EXCEPT !.named = FALSE]
                          [] m.what = "badsilence" -> [@ EXCEPT !.silence = "bogus"]
                          [] m.what = "nogroups" -> [@ EXCEPT !.groups = <<>>]
                          [] m.what = "noacts" -> [@ EXCEPT !.acts = <<>>]
                          [] m.what = "pad" -> [@ EXCEPT !.pad = m.val]
                          [] m.what = "pht" -> [@ EXCEPT !.pht = m.val]]
  ELSE IF Len(m.at) = 2 THEN
    [root EXCEPT ![r].groups[m.at[2]] = CASE m.what = "gnoname" -> [@ EXCEPT !.named = FALSE]
                                          [] m.what = "gnodets" -> [@ EXCEPT !.dets = <<>>]]
  ELSE IF m.at[2] = 0 THEN [root EXCEPT ![r].acts[m.at[3]] = MutPlugin(@, m)]
  ELSE [root EXCEPT ![r].groups[m.at[2]].dets[m.at[3]] = MutPlugin(@, m)]

RECURSIVE ApplyAll(_, _)
ApplyAll(root, ms) == IF ms = <<>> THEN root ELSE ApplyAll(Apply(root, Head(ms)), Tail(ms))
\* the mutation makes its target invalid
IsBad(m) == \/ m.what \in {"noname", "badsilence", "nogroups", "noacts", "gnoname", "gnodets", "unknown",
                           "noplugname", "noid", "extra"}
            \/ (m.what \in {"pad", "pht", "delay"} /\ ~UIntOk(m.val))

MutSets == {<<>>} \cup {<<m>> : m \in Muts}
           \cup (IF MaxMut >= 2 THEN {<<m1, m2>> : m1 \in Muts, m2 \in {m \in Muts : m.at[1] = 2 \/ m.what = "delay"}} ELSE {})
\* two mutations of one and the same field: the later one wins, which Monotone must not be asked about
SameField(a, b) == a.at = b.at /\ (a.what = b.what \/ {a.what, b.what} \subseteq {"unknown", "noplugname"})
Independent(ms) == Len(ms) < 2 \/ ~SameField(ms[1], ms[2])

\* JSON number literals given as plugin argument values: the plugin must receive a string whose
\* numeric reading is the literal's value (64-bit and fractional values neither truncated nor rounded)
JsonNumbers == { <<"7">>, <<"0",".","5">>, <<"0",".","8","7","6","5","4","3","2","1">>, <<"8","e","9">>, <<"2","0",".","5">>,
                 <<"1","2","3","4","5","6","7",".","5">>, <<"9","0","0","7","1","9","9","2","5","4","7","4","0","9","9","3">>,
                 <<"-","3">>, <<"0",".","0","1","2","3","4","5","6","7","8","9">>, <<"8","0","0","0","0","0","0","0","0","0">>,
                 <<"1",".","2","5">> }
VARIABLE c
Case(kind, s, ms) == [kind |-> kind, s |-> s, ms |-> ms]
Cases ==
  {Case("N", s, <<>>) : s \in Strs(NumSigma, NumLen) \cup SpecialNums}
  \cup {Case("S", s, <<>>) : s \in Strs(SizeSigma, SizeLen) \cup SpecialSizes}
  \cup {Case("R", s, <<>>) : s \in JsonNumbers}
  \cup {Case("I", <<>>, ms) : ms \in {x \in MutSets : Independent(x)}}
  \cup {Case("J", <<>>, <<[at |-> <<>>, what |-> pos, val |-> <<>>], [at |-> <<>>, what |-> sh, val |-> <<>>]>>) :
          pos \in Positions, sh \in Shapes}

Init == c \in Cases
Spec == Init /\ [][UNCHANGED c]_c

\* ---------------------------------------------------------------- laws
\* narrower types accept fewer strings; integers are never read from decimals or garbage
TypeLattice == c.kind = "N" => /\ (UIntOk(c.s) => IntOk(c.s))
                               /\ (IntOk(c.s) => Int64Ok(c.s))
                               /\ (Int64Ok(c.s) => FloatOk(c.s))
NoGarbageNumber == c.kind = "N" => (FloatOk(c.s) => \A i \in DOMAIN c.s : c.s[i] \in Digits \cup {"-", "."})
SizeHasNoForeignChars ==
  c.kind = "S" => (SizeShapeOk(c.s) => \A i \in DOMAIN c.s : c.s[i] \in Digits \cup Units \cup {".", " "})
PercentIsNotSize == c.kind = "S" => ~(PercentOk(c.s) /\ SizeShapeOk(c.s))
\* making any part invalid never turns reject into accept; an untouched or validly touched IR is accepted
Monotone == c.kind = "I" => (RootOk(ApplyAll(BaseRoot, c.ms)) <=> \A i \in DOMAIN c.ms : ~IsBad(c.ms[i]))
CompilePreservesOrder ==
  c.kind = "I" => (RootOk(ApplyAll(BaseRoot, c.ms)) => Instances(ApplyAll(BaseRoot, c.ms)) = Instances(BaseRoot))
\* a drop-in may leave out detector groups or actions, nothing else is relaxed
DropinOnlyRelaxesEmptiness ==
  c.kind = "I" => LET ir == ApplyAll(BaseRoot, c.ms) IN
                  (RootOk(ir) => \A i \in DOMAIN ir : RulesetOk(ir[i], TRUE))
ShapeExpectedAccepted == c.kind = "J" => (c.ms[2].what = "expected" => ShapeVerdict(c.ms[1].what, "expected") = "accept")
ShapeContainerMismatchRejected ==
  c.kind = "J" => ((c.ms[2].what \in {"array", "object"} /\ ExpectedType(c.ms[1].what) \in Scalars)
                     => ShapeVerdict(c.ms[1].what, c.ms[2].what) = "reject")

\* ---------------------------------------------------------------- case file
Result(k) ==
  IF k.kind = "N" THEN [kind |-> "N", s |-> k.s, uint |-> UIntOk(k.s), int |-> IntOk(k.s), int64 |-> Int64Ok(k.s),
                        float |-> FloatOk(k.s), boolean |-> BoolOk(k.s)]
  ELSE IF k.kind = "S" THEN [kind |-> "S", s |-> k.s, size |-> SizeShapeOk(k.s), pct |-> PercentOk(k.s),
                             bare |-> IsBareMB(k.s), unspecified |-> SizeUnspecified(k.s),
                             comps |-> IF SizeShapeOk(k.s) THEN SizeComps(k.s) ELSE <<>>]
  ELSE IF k.kind = "R" THEN [kind |-> "R", s |-> k.s, preserved |-> TRUE]
  ELSE IF k.kind = "I" THEN LET ir == ApplyAll(BaseRoot, k.ms) IN
                            [kind |-> "I", ir |-> ir, accept |-> RootOk(ir),
                             acceptAsDropin |-> \A i \in DOMAIN ir : RulesetOk(ir[i], TRUE),
                             instances |-> IF RootOk(ir) THEN Instances(ir) ELSE <<>>]
  ELSE [kind |-> "J", pos |-> k.ms[1].what, shape |-> k.ms[2].what, verdict |-> ShapeVerdict(k.ms[1].what, k.ms[2].what)]

DumpCases == LET seq == SetToSeq(Cases) IN
             ndJsonSerialize(IOEnv.CASES, [i \in DOMAIN seq |-> Result(seq[i])])
=============================================================================
