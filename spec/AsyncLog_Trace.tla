--------------------------- MODULE AsyncLog_Trace ---------------------------
(* Stage B for C20: hook points inside the logger's lock (accept / drop / swap / stop, OOMD_VERIF)  *)
(* and the bytes arriving at a controllable sink (log_driver.cpp) form one linearised event log    *)
(* that must be a behaviour of AsyncLog.tla.                                                        *)
EXTENDS AsyncLog, Json, IOUtils
VARIABLE l
tvars == <<lv, l>>
TraceLog == ndJsonDeserialize(IOEnv.TRACE)
N == Len(TraceLog)
Ev == TraceLog[l]
IsEv(name) == l <= N /\ Ev.e = name
Consume == l' = l + 1
TraceInit == LInit /\ l = 1 /\ TLCSet(1, 0)
TReset == /\ IsEv("SReset") /\ Consume
          /\ q' = <<>> /\ curSize' = 0 /\ dropped' = 0 /\ inflight' = <<>> /\ pendDisc' = 0 /\ running' = TRUE /\ exited' = FALSE
          /\ lastRun' = TRUE /\ sink' = <<>> /\ reported' = 0 /\ calls' = {} /\ hacc' = <<>> /\ hdrop' = 0
TCall == IsEv("Call") /\ Consume /\ Call(Ev.thr, Ev.i, Ev.silenced)
TRet == IsEv("Ret") /\ Consume /\ Ret(Ev.thr, Ev.i)
TAccept == IsEv("Accept") /\ Consume /\ Accept(Ev.thr, Ev.i, Ev.size) /\ Ev.cur = curSize'
TDrop == IsEv("Drop") /\ Consume /\ Drop(Ev.thr, Ev.i, Ev.size)
TSwap == IsEv("Swap") /\ Consume /\ Swap(Ev.n, Ev.disc)
TSink == IsEv("Sink") /\ Consume /\ SinkWrite(Ev.thr, Ev.i)
TDrops == IsEv("DropsReported") /\ Consume /\ ReportDrops(Ev.n)
TStop == IsEv("Stop") /\ Consume /\ Stop
\* the flusher's exit is not observable by itself: it is implied by the destructor returning
TExit == FlusherExit /\ UNCHANGED l
TDone == IsEv("ShutdownDone") /\ Consume /\ ShutdownDone
TEnd == IsEv("SEnd") /\ Consume /\ exited /\ Ev.kmsgRecords = Ev.threads /\ UNCHANGED lv
TraceNext == TReset \/ TCall \/ TRet \/ TAccept \/ TDrop \/ TSwap \/ TSink \/ TDrops \/ TStop \/ TExit \/ TDone \/ TEnd
TraceSpec == TraceInit /\ [][TraceNext]_tvars
TraceProgress == TLCSet(1, IF TLCGet(1) < l THEN l ELSE TLCGet(1))
TraceAccepted == /\ PrintT(<<"MAXL", TLCGet(1), "OF", N>>) /\ TLCGet(1) = N + 1
=============================================================================
