SPECIFICATION TraceSpec
CONSTRAINT TraceProgress
POSTCONDITION TraceAccepted
INVARIANT Containment
CHECK_DEADLOCK FALSE
