SPECIFICATION Spec
CONSTANTS
  Plugins = {"kill_by_swap_usage", "kill_by_pressure", "kill_by_io_cost", "kill_by_pg_scan"}
INVARIANTS FirstWithinEligible FirstIffEligible FirstInBestPrefClass SwapThresholdExact KmgSizeBeatsGrowth KmgGrowthOnlyInTopPercentile PgOnlyPositive
CHECK_DEADLOCK FALSE
