---- MODULE MC_CgroupStats_TTrace_1790824345 ----
EXTENDS Sequences, TLCExt, MC_CgroupStats, Toolbox, Naturals, TLC

_expression ==
    LET MC_CgroupStats_TEExpression == INSTANCE MC_CgroupStats_TEExpression
    IN MC_CgroupStats_TEExpression!expression
----

_trace ==
    LET MC_CgroupStats_TETrace == INSTANCE MC_CgroupStats_TETrace
    IN MC_CgroupStats_TETrace!trace
----

_inv ==
    ~(
        TLCGet("level") = Len(_TETrace)
        /\
        obt = ((<<<<"a">>, "pg">> :> [gen |-> 1, v |-> 5]))
        /\
        cfgS = ([devs |-> ("8:0" :> "ssd"), ssd |-> [read_iops |-> 1, readbw |-> 2, write_iops |-> 0, writebw |-> 0, trim_iops |-> 0, trimbw |-> 0], hdd |-> [read_iops |-> 0, readbw |-> 0, write_iops |-> 0, writebw |-> 0, trim_iops |-> 0, trimbw |-> 0], decay |-> 4])
        /\
        cache = ((<<<<"a">>, "current_usage">> :> 4 @@ <<<<"a">>, "mstat">> :> [anon |-> 1, file |-> 1, shmem |-> 0, pgscan |-> 5] @@ <<<<"a", "x">>, "current_usage">> :> 4))
        /\
        tickS = (0)
        /\
        nchg = (0)
        /\
        answers = ((<<<<"a">>, "current_usage">> :> 4 @@ <<<<"a">>, "pg_scan_rate">> :> -19 @@ <<<<"a", "x">>, "current_usage">> :> 4))
        /\
        K = ((<<"a">> :> [current_usage |-> 4, swap_max |-> 3, gen |-> 1, swap_usage |-> 1, memory_low |-> 8, memory_min |-> 0, memory_high |-> 1000000000, memory_max |-> 1000000000, mstat |-> [anon |-> 1, file |-> 1, shmem |-> 0, pgscan |-> 5], nr_dying_descendants |-> 0, is_populated |-> TRUE, oom_group |-> FALSE, kill_preference |-> 0, mem_pressure |-> [a10 |-> 0, a60 |-> 0, a300 |-> 0, total |-> 0], mem_pressure_some |-> [a10 |-> 0, a60 |-> 0, a300 |-> 0, total |-> 0], io_pressure |-> [a10 |-> 0, a60 |-> 0, a300 |-> 0, total |-> 0], io_pressure_some |-> [a10 |-> 0, a60 |-> 0, a300 |-> 0, total |-> 0], io_stat |-> <<[dev |-> "8:0", rbytes |-> 5, wbytes |-> 0, rios |-> 1, wios |-> 0, dbytes |-> 0, dios |-> 0]>>] @@ <<"a", "x">> :> [current_usage |-> 4, swap_max |-> 3, gen |-> 1, swap_usage |-> 1, memory_low |-> 8, memory_min |-> 0, memory_high |-> 1000000000, memory_max |-> 1000000000, mstat |-> [anon |-> 1, file |-> 1, shmem |-> 0, pgscan |-> 5], nr_dying_descendants |-> 0, is_populated |-> TRUE, oom_group |-> FALSE, kill_preference |-> 0, mem_pressure |-> [a10 |-> 0, a60 |-> 0, a300 |-> 0, total |-> 0], mem_pressure_some |-> [a10 |-> 0, a60 |-> 0, a300 |-> 0, total |-> 0], io_pressure |-> [a10 |-> 0, a60 |-> 0, a300 |-> 0, total |-> 0], io_pressure_some |-> [a10 |-> 0, a60 |-> 0, a300 |-> 0, total |-> 0], io_stat |-> <<[dev |-> "8:0", rbytes |-> 5, wbytes |-> 0, rios |-> 1, wios |-> 0, dbytes |-> 0, dios |-> 0]>>] @@ <<"a", "y">> :> [current_usage |-> 4, swap_max |-> 3, gen |-> 1, swap_usage |-> 1, memory_low |-> 8, memory_min |-> 0, memory_high |-> 1000000000, memory_max |-> 1000000000, mstat |-> [anon |-> 1, file |-> 1, shmem |-> 0, pgscan |-> 5], nr_dying_descendants |-> 0, is_populated |-> TRUE, oom_group |-> FALSE, kill_preference |-> 0, mem_pressure |-> [a10 |-> 0, a60 |-> 0, a300 |-> 0, total |-> 0], mem_pressure_some |-> [a10 |-> 0, a60 |-> 0, a300 |-> 0, total |-> 0], io_pressure |-> [a10 |-> 0, a60 |-> 0, a300 |-> 0, total |-> 0], io_pressure_some |-> [a10 |-> 0, a60 |-> 0, a300 |-> 0, total |-> 0], io_stat |-> <<[dev |-> "8:0", rbytes |-> 5, wbytes |-> 0, rios |-> 1, wios |-> 0, dbytes |-> 0, dios |-> 0]>>]))
        /\
        arch = (<<>>)
        /\
        sys = ([swaptotal |-> 8, swapused |-> 2])
    )
----

_init ==
    /\ cfgS = _TETrace[1].cfgS
    /\ K = _TETrace[1].K
    /\ tickS = _TETrace[1].tickS
    /\ nchg = _TETrace[1].nchg
    /\ arch = _TETrace[1].arch
    /\ answers = _TETrace[1].answers
    /\ sys = _TETrace[1].sys
    /\ obt = _TETrace[1].obt
    /\ cache = _TETrace[1].cache
----

_next ==
    /\ \E i,j \in DOMAIN _TETrace:
        /\ \/ /\ j = i + 1
              /\ i = TLCGet("level")
        /\ cfgS  = _TETrace[i].cfgS
        /\ cfgS' = _TETrace[j].cfgS
        /\ K  = _TETrace[i].K
        /\ K' = _TETrace[j].K
        /\ tickS  = _TETrace[i].tickS
        /\ tickS' = _TETrace[j].tickS
        /\ nchg  = _TETrace[i].nchg
        /\ nchg' = _TETrace[j].nchg
        /\ arch  = _TETrace[i].arch
        /\ arch' = _TETrace[j].arch
        /\ answers  = _TETrace[i].answers
        /\ answers' = _TETrace[j].answers
        /\ sys  = _TETrace[i].sys
        /\ sys' = _TETrace[j].sys
        /\ obt  = _TETrace[i].obt
        /\ obt' = _TETrace[j].obt
        /\ cache  = _TETrace[i].cache
        /\ cache' = _TETrace[j].cache

\* Uncomment the ASSUME below to write the states of the error trace
\* to the given file in Json format. Note that you can pass any tuple
\* to `JsonSerialize`. For example, a sub-sequence of _TETrace.
    \* ASSUME
    \*     LET J == INSTANCE Json
    \*         IN J!JsonSerialize("MC_CgroupStats_TTrace_1790824345.json", _TETrace)

=============================================================================

 Note that you can extract this module `MC_CgroupStats_TEExpression`
  to a dedicated file to reuse `expression` (the module in the 
  dedicated `MC_CgroupStats_TEExpression.tla` file takes precedence 
  over the module `MC_CgroupStats_TEExpression` below).

---- MODULE MC_CgroupStats_TEExpression ----
EXTENDS Sequences, TLCExt, MC_CgroupStats, Toolbox, Naturals, TLC

expression == 
    [
        \* To hide variables of the `MC_CgroupStats` spec from the error trace,
        \* remove the variables below.  The trace will be written in the order
        \* of the fields of this record.
        cfgS |-> cfgS
        ,K |-> K
        ,tickS |-> tickS
        ,nchg |-> nchg
        ,arch |-> arch
        ,answers |-> answers
        ,sys |-> sys
        ,obt |-> obt
        ,cache |-> cache
        
        \* Put additional constant-, state-, and action-level expressions here:
        \* ,_stateNumber |-> _TEPosition
        \* ,_cfgSUnchanged |-> cfgS = cfgS'
        
        \* Format the `cfgS` variable as Json value.
        \* ,_cfgSJson |->
        \*     LET J == INSTANCE Json
        \*     IN J!ToJson(cfgS)
        
        \* Lastly, you may build expressions over arbitrary sets of states by
        \* leveraging the _TETrace operator.  For example, this is how to
        \* count the number of times a spec variable changed up to the current
        \* state in the trace.
        \* ,_cfgSModCount |->
        \*     LET F[s \in DOMAIN _TETrace] ==
        \*         IF s = 1 THEN 0
        \*         ELSE IF _TETrace[s].cfgS # _TETrace[s-1].cfgS
        \*             THEN 1 + F[s-1] ELSE F[s-1]
        \*     IN F[_TEPosition - 1]
    ]

=============================================================================



Parsing and semantic processing can take forever if the trace below is long.
 In this case, it is advised to uncomment the module below to deserialize the
 trace from a generated binary file.

\*
\*---- MODULE MC_CgroupStats_TETrace ----
\*EXTENDS IOUtils, MC_CgroupStats, TLC
\*
\*trace == IODeserialize("MC_CgroupStats_TTrace_1790824345.bin", TRUE)
\*
\*=============================================================================
\*

---- MODULE MC_CgroupStats_TETrace ----
EXTENDS MC_CgroupStats, TLC

trace == 
    <<
    ([obt |-> <<>>,cfgS |-> [devs |-> ("8:0" :> "ssd"), ssd |-> [read_iops |-> 1, readbw |-> 2, write_iops |-> 0, writebw |-> 0, trim_iops |-> 0, trimbw |-> 0], hdd |-> [read_iops |-> 0, readbw |-> 0, write_iops |-> 0, writebw |-> 0, trim_iops |-> 0, trimbw |-> 0], decay |-> 4],cache |-> <<>>,tickS |-> 0,nchg |-> 0,answers |-> <<>>,K |-> (<<"a">> :> [current_usage |-> 4, swap_max |-> 3, gen |-> 1, swap_usage |-> 1, memory_low |-> 8, memory_min |-> 0, memory_high |-> 1000000000, memory_max |-> 1000000000, mstat |-> [anon |-> 1, file |-> 1, shmem |-> 0, pgscan |-> 5], nr_dying_descendants |-> 0, is_populated |-> TRUE, oom_group |-> FALSE, kill_preference |-> 0, mem_pressure |-> [a10 |-> 0, a60 |-> 0, a300 |-> 0, total |-> 0], mem_pressure_some |-> [a10 |-> 0, a60 |-> 0, a300 |-> 0, total |-> 0], io_pressure |-> [a10 |-> 0, a60 |-> 0, a300 |-> 0, total |-> 0], io_pressure_some |-> [a10 |-> 0, a60 |-> 0, a300 |-> 0, total |-> 0], io_stat |-> <<[dev |-> "8:0", rbytes |-> 5, wbytes |-> 0, rios |-> 1, wios |-> 0, dbytes |-> 0, dios |-> 0]>>] @@ <<"a", "x">> :> [current_usage |-> 4, swap_max |-> 3, gen |-> 1, swap_usage |-> 1, memory_low |-> 8, memory_min |-> 0, memory_high |-> 1000000000, memory_max |-> 1000000000, mstat |-> [anon |-> 1, file |-> 1, shmem |-> 0, pgscan |-> 5], nr_dying_descendants |-> 0, is_populated |-> TRUE, oom_group |-> FALSE, kill_preference |-> 0, mem_pressure |-> [a10 |-> 0, a60 |-> 0, a300 |-> 0, total |-> 0], mem_pressure_some |-> [a10 |-> 0, a60 |-> 0, a300 |-> 0, total |-> 0], io_pressure |-> [a10 |-> 0, a60 |-> 0, a300 |-> 0, total |-> 0], io_pressure_some |-> [a10 |-> 0, a60 |-> 0, a300 |-> 0, total |-> 0], io_stat |-> <<[dev |-> "8:0", rbytes |-> 5, wbytes |-> 0, rios |-> 1, wios |-> 0, dbytes |-> 0, dios |-> 0]>>] @@ <<"a", "y">> :> [current_usage |-> 4, swap_max |-> 3, gen |-> 1, swap_usage |-> 1, memory_low |-> 8, memory_min |-> 0, memory_high |-> 1000000000, memory_max |-> 1000000000, mstat |-> [anon |-> 1, file |-> 1, shmem |-> 0, pgscan |-> 5], nr_dying_descendants |-> 0, is_populated |-> TRUE, oom_group |-> FALSE, kill_preference |-> 0, mem_pressure |-> [a10 |-> 0, a60 |-> 0, a300 |-> 0, total |-> 0], mem_pressure_some |-> [a10 |-> 0, a60 |-> 0, a300 |-> 0, total |-> 0], io_pressure |-> [a10 |-> 0, a60 |-> 0, a300 |-> 0, total |-> 0], io_pressure_some |-> [a10 |-> 0, a60 |-> 0, a300 |-> 0, total |-> 0], io_stat |-> <<[dev |-> "8:0", rbytes |-> 5, wbytes |-> 0, rios |-> 1, wios |-> 0, dbytes |-> 0, dios |-> 0]>>]),arch |-> <<>>,sys |-> [swaptotal |-> 8, swapused |-> 2]]),
    ([obt |-> <<>>,cfgS |-> [devs |-> ("8:0" :> "ssd"), ssd |-> [read_iops |-> 1, readbw |-> 2, write_iops |-> 0, writebw |-> 0, trim_iops |-> 0, trimbw |-> 0], hdd |-> [read_iops |-> 0, readbw |-> 0, write_iops |-> 0, writebw |-> 0, trim_iops |-> 0, trimbw |-> 0], decay |-> 4],cache |-> (<<<<"a", "x">>, "current_usage">> :> 4),tickS |-> 0,nchg |-> 0,answers |-> (<<<<"a", "x">>, "current_usage">> :> 4),K |-> (<<"a">> :> [current_usage |-> 4, swap_max |-> 3, gen |-> 1, swap_usage |-> 1, memory_low |-> 8, memory_min |-> 0, memory_high |-> 1000000000, memory_max |-> 1000000000, mstat |-> [anon |-> 1, file |-> 1, shmem |-> 0, pgscan |-> 5], nr_dying_descendants |-> 0, is_populated |-> TRUE, oom_group |-> FALSE, kill_preference |-> 0, mem_pressure |-> [a10 |-> 0, a60 |-> 0, a300 |-> 0, total |-> 0], mem_pressure_some |-> [a10 |-> 0, a60 |-> 0, a300 |-> 0, total |-> 0], io_pressure |-> [a10 |-> 0, a60 |-> 0, a300 |-> 0, total |-> 0], io_pressure_some |-> [a10 |-> 0, a60 |-> 0, a300 |-> 0, total |-> 0], io_stat |-> <<[dev |-> "8:0", rbytes |-> 5, wbytes |-> 0, rios |-> 1, wios |-> 0, dbytes |-> 0, dios |-> 0]>>] @@ <<"a", "x">> :> [current_usage |-> 4, swap_max |-> 3, gen |-> 1, swap_usage |-> 1, memory_low |-> 8, memory_min |-> 0, memory_high |-> 1000000000, memory_max |-> 1000000000, mstat |-> [anon |-> 1, file |-> 1, shmem |-> 0, pgscan |-> 5], nr_dying_descendants |-> 0, is_populated |-> TRUE, oom_group |-> FALSE, kill_preference |-> 0, mem_pressure |-> [a10 |-> 0, a60 |-> 0, a300 |-> 0, total |-> 0], mem_pressure_some |-> [a10 |-> 0, a60 |-> 0, a300 |-> 0, total |-> 0], io_pressure |-> [a10 |-> 0, a60 |-> 0, a300 |-> 0, total |-> 0], io_pressure_some |-> [a10 |-> 0, a60 |-> 0, a300 |-> 0, total |-> 0], io_stat |-> <<[dev |-> "8:0", rbytes |-> 5, wbytes |-> 0, rios |-> 1, wios |-> 0, dbytes |-> 0, dios |-> 0]>>] @@ <<"a", "y">> :> [current_usage |-> 4, swap_max |-> 3, gen |-> 1, swap_usage |-> 1, memory_low |-> 8, memory_min |-> 0, memory_high |-> 1000000000, memory_max |-> 1000000000, mstat |-> [anon |-> 1, file |-> 1, shmem |-> 0, pgscan |-> 5], nr_dying_descendants |-> 0, is_populated |-> TRUE, oom_group |-> FALSE, kill_preference |-> 0, mem_pressure |-> [a10 |-> 0, a60 |-> 0, a300 |-> 0, total |-> 0], mem_pressure_some |-> [a10 |-> 0, a60 |-> 0, a300 |-> 0, total |-> 0], io_pressure |-> [a10 |-> 0, a60 |-> 0, a300 |-> 0, total |-> 0], io_pressure_some |-> [a10 |-> 0, a60 |-> 0, a300 |-> 0, total |-> 0], io_stat |-> <<[dev |-> "8:0", rbytes |-> 5, wbytes |-> 0, rios |-> 1, wios |-> 0, dbytes |-> 0, dios |-> 0]>>]),arch |-> <<>>,sys |-> [swaptotal |-> 8, swapused |-> 2]]),
    ([obt |-> <<>>,cfgS |-> [devs |-> ("8:0" :> "ssd"), ssd |-> [read_iops |-> 1, readbw |-> 2, write_iops |-> 0, writebw |-> 0, trim_iops |-> 0, trimbw |-> 0], hdd |-> [read_iops |-> 0, readbw |-> 0, write_iops |-> 0, writebw |-> 0, trim_iops |-> 0, trimbw |-> 0], decay |-> 4],cache |-> (<<<<"a">>, "current_usage">> :> 4 @@ <<<<"a", "x">>, "current_usage">> :> 4),tickS |-> 0,nchg |-> 0,answers |-> (<<<<"a">>, "current_usage">> :> 4 @@ <<<<"a", "x">>, "current_usage">> :> 4),K |-> (<<"a">> :> [current_usage |-> 4, swap_max |-> 3, gen |-> 1, swap_usage |-> 1, memory_low |-> 8, memory_min |-> 0, memory_high |-> 1000000000, memory_max |-> 1000000000, mstat |-> [anon |-> 1, file |-> 1, shmem |-> 0, pgscan |-> 5], nr_dying_descendants |-> 0, is_populated |-> TRUE, oom_group |-> FALSE, kill_preference |-> 0, mem_pressure |-> [a10 |-> 0, a60 |-> 0, a300 |-> 0, total |-> 0], mem_pressure_some |-> [a10 |-> 0, a60 |-> 0, a300 |-> 0, total |-> 0], io_pressure |-> [a10 |-> 0, a60 |-> 0, a300 |-> 0, total |-> 0], io_pressure_some |-> [a10 |-> 0, a60 |-> 0, a300 |-> 0, total |-> 0], io_stat |-> <<[dev |-> "8:0", rbytes |-> 5, wbytes |-> 0, rios |-> 1, wios |-> 0, dbytes |-> 0, dios |-> 0]>>] @@ <<"a", "x">> :> [current_usage |-> 4, swap_max |-> 3, gen |-> 1, swap_usage |-> 1, memory_low |-> 8, memory_min |-> 0, memory_high |-> 1000000000, memory_max |-> 1000000000, mstat |-> [anon |-> 1, file |-> 1, shmem |-> 0, pgscan |-> 5], nr_dying_descendants |-> 0, is_populated |-> TRUE, oom_group |-> FALSE, kill_preference |-> 0, mem_pressure |-> [a10 |-> 0, a60 |-> 0, a300 |-> 0, total |-> 0], mem_pressure_some |-> [a10 |-> 0, a60 |-> 0, a300 |-> 0, total |-> 0], io_pressure |-> [a10 |-> 0, a60 |-> 0, a300 |-> 0, total |-> 0], io_pressure_some |-> [a10 |-> 0, a60 |-> 0, a300 |-> 0, total |-> 0], io_stat |-> <<[dev |-> "8:0", rbytes |-> 5, wbytes |-> 0, rios |-> 1, wios |-> 0, dbytes |-> 0, dios |-> 0]>>] @@ <<"a", "y">> :> [current_usage |-> 4, swap_max |-> 3, gen |-> 1, swap_usage |-> 1, memory_low |-> 8, memory_min |-> 0, memory_high |-> 1000000000, memory_max |-> 1000000000, mstat |-> [anon |-> 1, file |-> 1, shmem |-> 0, pgscan |-> 5], nr_dying_descendants |-> 0, is_populated |-> TRUE, oom_group |-> FALSE, kill_preference |-> 0, mem_pressure |-> [a10 |-> 0, a60 |-> 0, a300 |-> 0, total |-> 0], mem_pressure_some |-> [a10 |-> 0, a60 |-> 0, a300 |-> 0, total |-> 0], io_pressure |-> [a10 |-> 0, a60 |-> 0, a300 |-> 0, total |-> 0], io_pressure_some |-> [a10 |-> 0, a60 |-> 0, a300 |-> 0, total |-> 0], io_stat |-> <<[dev |-> "8:0", rbytes |-> 5, wbytes |-> 0, rios |-> 1, wios |-> 0, dbytes |-> 0, dios |-> 0]>>]),arch |-> <<>>,sys |-> [swaptotal |-> 8, swapused |-> 2]]),
    ([obt |-> (<<<<"a">>, "pg">> :> [gen |-> 1, v |-> 5]),cfgS |-> [devs |-> ("8:0" :> "ssd"), ssd |-> [read_iops |-> 1, readbw |-> 2, write_iops |-> 0, writebw |-> 0, trim_iops |-> 0, trimbw |-> 0], hdd |-> [read_iops |-> 0, readbw |-> 0, write_iops |-> 0, writebw |-> 0, trim_iops |-> 0, trimbw |-> 0], decay |-> 4],cache |-> (<<<<"a">>, "current_usage">> :> 4 @@ <<<<"a">>, "mstat">> :> [anon |-> 1, file |-> 1, shmem |-> 0, pgscan |-> 5] @@ <<<<"a", "x">>, "current_usage">> :> 4),tickS |-> 0,nchg |-> 0,answers |-> (<<<<"a">>, "current_usage">> :> 4 @@ <<<<"a">>, "pg_scan_rate">> :> -20 @@ <<<<"a", "x">>, "current_usage">> :> 4),K |-> (<<"a">> :> [current_usage |-> 4, swap_max |-> 3, gen |-> 1, swap_usage |-> 1, memory_low |-> 8, memory_min |-> 0, memory_high |-> 1000000000, memory_max |-> 1000000000, mstat |-> [anon |-> 1, file |-> 1, shmem |-> 0, pgscan |-> 5], nr_dying_descendants |-> 0, is_populated |-> TRUE, oom_group |-> FALSE, kill_preference |-> 0, mem_pressure |-> [a10 |-> 0, a60 |-> 0, a300 |-> 0, total |-> 0], mem_pressure_some |-> [a10 |-> 0, a60 |-> 0, a300 |-> 0, total |-> 0], io_pressure |-> [a10 |-> 0, a60 |-> 0, a300 |-> 0, total |-> 0], io_pressure_some |-> [a10 |-> 0, a60 |-> 0, a300 |-> 0, total |-> 0], io_stat |-> <<[dev |-> "8:0", rbytes |-> 5, wbytes |-> 0, rios |-> 1, wios |-> 0, dbytes |-> 0, dios |-> 0]>>] @@ <<"a", "x">> :> [current_usage |-> 4, swap_max |-> 3, gen |-> 1, swap_usage |-> 1, memory_low |-> 8, memory_min |-> 0, memory_high |-> 1000000000, memory_max |-> 1000000000, mstat |-> [anon |-> 1, file |-> 1, shmem |-> 0, pgscan |-> 5], nr_dying_descendants |-> 0, is_populated |-> TRUE, oom_group |-> FALSE, kill_preference |-> 0, mem_pressure |-> [a10 |-> 0, a60 |-> 0, a300 |-> 0, total |-> 0], mem_pressure_some |-> [a10 |-> 0, a60 |-> 0, a300 |-> 0, total |-> 0], io_pressure |-> [a10 |-> 0, a60 |-> 0, a300 |-> 0, total |-> 0], io_pressure_some |-> [a10 |-> 0, a60 |-> 0, a300 |-> 0, total |-> 0], io_stat |-> <<[dev |-> "8:0", rbytes |-> 5, wbytes |-> 0, rios |-> 1, wios |-> 0, dbytes |-> 0, dios |-> 0]>>] @@ <<"a", "y">> :> [current_usage |-> 4, swap_max |-> 3, gen |-> 1, swap_usage |-> 1, memory_low |-> 8, memory_min |-> 0, memory_high |-> 1000000000, memory_max |-> 1000000000, mstat |-> [anon |-> 1, file |-> 1, shmem |-> 0, pgscan |-> 5], nr_dying_descendants |-> 0, is_populated |-> TRUE, oom_group |-> FALSE, kill_preference |-> 0, mem_pressure |-> [a10 |-> 0, a60 |-> 0, a300 |-> 0, total |-> 0], mem_pressure_some |-> [a10 |-> 0, a60 |-> 0, a300 |-> 0, total |-> 0], io_pressure |-> [a10 |-> 0, a60 |-> 0, a300 |-> 0, total |-> 0], io_pressure_some |-> [a10 |-> 0, a60 |-> 0, a300 |-> 0, total |-> 0], io_stat |-> <<[dev |-> "8:0", rbytes |-> 5, wbytes |-> 0, rios |-> 1, wios |-> 0, dbytes |-> 0, dios |-> 0]>>]),arch |-> <<>>,sys |-> [swaptotal |-> 8, swapused |-> 2]]),
    ([obt |-> (<<<<"a">>, "pg">> :> [gen |-> 1, v |-> 5]),cfgS |-> [devs |-> ("8:0" :> "ssd"), ssd |-> [read_iops |-> 1, readbw |-> 2, write_iops |-> 0, writebw |-> 0, trim_iops |-> 0, trimbw |-> 0], hdd |-> [read_iops |-> 0, readbw |-> 0, write_iops |-> 0, writebw |-> 0, trim_iops |-> 0, trimbw |-> 0], decay |-> 4],cache |-> (<<<<"a">>, "current_usage">> :> 4 @@ <<<<"a">>, "mstat">> :> [anon |-> 1, file |-> 1, shmem |-> 0, pgscan |-> 5] @@ <<<<"a", "x">>, "current_usage">> :> 4),tickS |-> 0,nchg |-> 0,answers |-> (<<<<"a">>, "current_usage">> :> 4 @@ <<<<"a">>, "pg_scan_rate">> :> -19 @@ <<<<"a", "x">>, "current_usage">> :> 4),K |-> (<<"a">> :> [current_usage |-> 4, swap_max |-> 3, gen |-> 1, swap_usage |-> 1, memory_low |-> 8, memory_min |-> 0, memory_high |-> 1000000000, memory_max |-> 1000000000, mstat |-> [anon |-> 1, file |-> 1, shmem |-> 0, pgscan |-> 5], nr_dying_descendants |-> 0, is_populated |-> TRUE, oom_group |-> FALSE, kill_preference |-> 0, mem_pressure |-> [a10 |-> 0, a60 |-> 0, a300 |-> 0, total |-> 0], mem_pressure_some |-> [a10 |-> 0, a60 |-> 0, a300 |-> 0, total |-> 0], io_pressure |-> [a10 |-> 0, a60 |-> 0, a300 |-> 0, total |-> 0], io_pressure_some |-> [a10 |-> 0, a60 |-> 0, a300 |-> 0, total |-> 0], io_stat |-> <<[dev |-> "8:0", rbytes |-> 5, wbytes |-> 0, rios |-> 1, wios |-> 0, dbytes |-> 0, dios |-> 0]>>] @@ <<"a", "x">> :> [current_usage |-> 4, swap_max |-> 3, gen |-> 1, swap_usage |-> 1, memory_low |-> 8, memory_min |-> 0, memory_high |-> 1000000000, memory_max |-> 1000000000, mstat |-> [anon |-> 1, file |-> 1, shmem |-> 0, pgscan |-> 5], nr_dying_descendants |-> 0, is_populated |-> TRUE, oom_group |-> FALSE, kill_preference |-> 0, mem_pressure |-> [a10 |-> 0, a60 |-> 0, a300 |-> 0, total |-> 0], mem_pressure_some |-> [a10 |-> 0, a60 |-> 0, a300 |-> 0, total |-> 0], io_pressure |-> [a10 |-> 0, a60 |-> 0, a300 |-> 0, total |-> 0], io_pressure_some |-> [a10 |-> 0, a60 |-> 0, a300 |-> 0, total |-> 0], io_stat |-> <<[dev |-> "8:0", rbytes |-> 5, wbytes |-> 0, rios |-> 1, wios |-> 0, dbytes |-> 0, dios |-> 0]>>] @@ <<"a", "y">> :> [current_usage |-> 4, swap_max |-> 3, gen |-> 1, swap_usage |-> 1, memory_low |-> 8, memory_min |-> 0, memory_high |-> 1000000000, memory_max |-> 1000000000, mstat |-> [anon |-> 1, file |-> 1, shmem |-> 0, pgscan |-> 5], nr_dying_descendants |-> 0, is_populated |-> TRUE, oom_group |-> FALSE, kill_preference |-> 0, mem_pressure |-> [a10 |-> 0, a60 |-> 0, a300 |-> 0, total |-> 0], mem_pressure_some |-> [a10 |-> 0, a60 |-> 0, a300 |-> 0, total |-> 0], io_pressure |-> [a10 |-> 0, a60 |-> 0, a300 |-> 0, total |-> 0], io_pressure_some |-> [a10 |-> 0, a60 |-> 0, a300 |-> 0, total |-> 0], io_stat |-> <<[dev |-> "8:0", rbytes |-> 5, wbytes |-> 0, rios |-> 1, wios |-> 0, dbytes |-> 0, dios |-> 0]>>]),arch |-> <<>>,sys |-> [swaptotal |-> 8, swapused |-> 2]])
    >>
----


=============================================================================

---- CONFIG MC_CgroupStats_TTrace_1790824345 ----
CONSTANTS
    MaxTicksS = 2
    MaxChanges = 2
    Fields = { "current_usage" , "swap_max" , "effective_swap_free" , "effective_swap_util_ppm" , "memory_protection" , "average_usage" , "io_cost_rate" , "pg_scan_rate" }

INVARIANT
    _inv

CHECK_DEADLOCK
    \* CHECK_DEADLOCK off because of PROPERTY or INVARIANT above.
    FALSE

INIT
    _init

NEXT
    _next

CONSTANT
    _TETrace <- _trace

ALIAS
    _expression
=============================================================================
\* Generated on Thu Oct 01 03:12:33 UTC 2026