SPECIFICATION TraceSpec
CONSTRAINT TraceProgress
POSTCONDITION TraceAccepted
INVARIANTS AllRunOnce ChainRule NoActionInPause PauseIsDeclared FreshUuids NoUseAfterDestroy DropinOrderOk AddedStatOk
CHECK_DEADLOCK FALSE
