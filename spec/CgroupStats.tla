----------------------------- MODULE CgroupStats -----------------------------
(***************************************************************************)
(* C15: what oomd reports for a cgroup during a tick is the reference      *)
(* function of the kernel files at that tick.                              *)
(*                                                                         *)
(* Kernel state K is abstract: sizes in units (the driver multiplies by a  *)
(* scale factor U to span the int64 range), "max" is the value Inf.        *)
(* CgroupContext reads lazily and caches per tick: the first query of a    *)
(* raw field in a tick fixes its value for that tick; derived values are   *)
(* functions of the (cached) raw values; temporal values use the archive   *)
(* taken at refresh() from what was obtained in the previous tick.         *)
(***************************************************************************)
EXTENDS Integers, Sequences, FiniteSets, TLC

VARIABLES
  K,      \* path -> kernel record of the cgroup (absent path: no such cgroup)
  sys,    \* [swaptotal, swapused]  (abstract units)
  cache,  \* <<path, rawfield>> -> value read first in this tick
  obt,    \* <<path, field>> -> value of a temporal input obtained in this tick
  arch,   \* path -> [gen, avg, io, pg] archive of the previous tick (hasX flags)
  cfgS,   \* [devs : dev -> "ssd"|"hdd", ssd : coeffs, hdd : coeffs, decay]
  tickS

svars == <<K, sys, cache, obt, arch, cfgS, tickS>>

Inf == 1000000000      \* the literal "max"
Min2(a, b) == IF a <= b THEN a ELSE b
Max2(a, b) == IF a >= b THEN a ELSE b

RawFields == {"current_usage", "swap_usage", "swap_max", "memory_low", "memory_min", "memory_high",
              "memory_max", "mstat", "nr_dying_descendants", "is_populated", "oom_group",
              "kill_preference", "children", "id", "mem_pressure", "mem_pressure_some", "io_pressure",
              "io_pressure_some", "io_stat"}

Parent(p) == SubSeq(p, 1, Len(p) - 1)
IsTop(p) == Len(p) = 1
ChildrenOf(p) == {q \in DOMAIN K : Len(q) = Len(p) + 1 /\ SubSeq(q, 1, Len(p)) = p}
Name(p) == p[Len(p)]

\* kernel value of a raw field
KV(p, f) ==
  CASE f = "children" -> {Name(q) : q \in ChildrenOf(p)}
    [] f = "id" -> K[p].gen
    [] OTHER -> K[p][f]

\* the raw value as this tick sees it: first read wins
Seen(c, p, f) == IF <<p, f>> \in DOMAIN c THEN c[<<p, f>>] ELSE KV(p, f)
Fill(c, keys) == [k \in DOMAIN c \cup keys |-> IF k \in DOMAIN c THEN c[k] ELSE KV(k[1], k[2])]

AncOrSelf(p) == {SubSeq(p, 1, i) : i \in 1..Len(p)}

\* ---------------------------------------------------------------- what a query reads (and thereby caches)
RawProtKeys(q) == {<<q, "current_usage">>, <<q, "memory_min">>, <<q, "memory_low">>}
RawProtOf(c, p) == LET a == c[<<p, "current_usage">>] b == c[<<p, "memory_min">>] d == c[<<p, "memory_low">>]
                   IN (IF a <= (IF b >= d THEN b ELSE d) THEN a ELSE (IF b >= d THEN b ELSE d))
RECURSIVE SumRawOf(_, _)
SumRawOf(c, S) == IF S = {} THEN 0 ELSE LET q == CHOOSE x \in S : TRUE IN RawProtOf(c, q) + SumRawOf(c, S \ {q})
\* memory_protection reads the siblings first and walks up only while the siblings' sum is not zero
RECURSIVE FillProt(_, _)
FillProt(c, p) ==
  IF IsTop(p) THEN Fill(c, RawProtKeys(p))
  ELSE LET c1 == Fill(c, {<<Parent(p), "children">>})
           sibs == {Parent(p) \o <<nm>> : nm \in c1[<<Parent(p), "children">>]}
           c2 == Fill(c1, UNION {RawProtKeys(q) : q \in sibs \cap DOMAIN K})
       IN IF SumRawOf(c2, sibs \cap DOMAIN K) = 0 THEN c2 ELSE FillProt(c2, Parent(p))

\* effective_swap_util_pct stops reading at a cgroup whose swap.max is 0
RECURSIVE FillUtil(_, _)
FillUtil(c, p) ==
  IF Len(p) = 0 THEN c
  ELSE LET c1 == Fill(c, {<<p, "swap_max">>}) IN
       IF c1[<<p, "swap_max">>] = 0 THEN c1
       ELSE FillUtil(Fill(c1, {<<p, "swap_usage">>}), Parent(p))

FillFor(c, p, f) ==
  CASE f \in RawFields -> Fill(c, {<<p, f>>})
    [] f \in {"anon_usage", "file_usage", "shmem_usage", "pg_scan_cumulative", "pg_scan_rate"} -> Fill(c, {<<p, "mstat">>})
    [] f = "effective_swap_max" -> Fill(c, {<<a, "swap_max">> : a \in AncOrSelf(p)})
    [] f = "effective_swap_free" ->
         Fill(c, {<<a, "swap_max">> : a \in AncOrSelf(p)} \cup {<<a, "swap_usage">> : a \in AncOrSelf(p)})
    [] f = "effective_swap_util_ppm" -> FillUtil(c, p)
    [] f = "memory_protection" -> FillProt(c, p)
    [] f \in {"io_cost_cumulative", "io_cost_rate"} -> Fill(c, {<<p, "io_stat">>})
    [] f = "average_usage" -> Fill(c, {<<p, "current_usage">>})
    [] f = "effective_usage" -> FillProt(Fill(c, {<<p, "current_usage">>}), p)

\* ---------------------------------------------------------------- reference functions over a filled cache
RawProt(c, p) == Min2(c[<<p, "current_usage">>], Max2(c[<<p, "memory_min">>], c[<<p, "memory_low">>]))

\* protection as an exact fraction [num, den] (den > 0)
RECURSIVE ProtFrac(_, _)
ProtFrac(c, p) ==
  IF IsTop(p) THEN [num |-> RawProt(c, p), den |-> 1]
  ELSE LET sibs == {Parent(p) \o <<nm>> : nm \in c[<<Parent(p), "children">>]} \cap DOMAIN K
           s == SumRawOf(c, sibs)
       IN IF s = 0 THEN [num |-> 0, den |-> 1]
          ELSE LET pp == ProtFrac(c, Parent(p))
                   \* the implementation truncates the parent's protection to an integer before using it
                   ppInt == pp.num \div pp.den
               IN IF ppInt >= s THEN [num |-> RawProt(c, p), den |-> 1]
                  ELSE [num |-> RawProt(c, p) * ppInt, den |-> s]

RECURSIVE EffSwapMax(_, _)
EffSwapMax(c, p) == IF Len(p) = 0 THEN sys.swaptotal ELSE Min2(EffSwapMax(c, Parent(p)), c[<<p, "swap_max">>])
RECURSIVE EffSwapFree(_, _)
EffSwapFree(c, p) ==
  IF Len(p) = 0 THEN sys.swaptotal - sys.swapused
  ELSE Min2(EffSwapFree(c, Parent(p)), c[<<p, "swap_max">>] - c[<<p, "swap_usage">>])
\* utilisation as a fraction; "max" counts as no utilisation, 0 max as 0
UtilFrac(u, m) == IF m = 0 \/ m >= Inf THEN [num |-> 0, den |-> 1] ELSE [num |-> u, den |-> m]
FracGeq(a, b) == a.num * b.den >= b.num * a.den
RECURSIVE EffSwapUtil(_, _)
EffSwapUtil(c, p) ==
  IF Len(p) = 0 THEN UtilFrac(sys.swapused, sys.swaptotal)
  ELSE LET loc == UtilFrac(c[<<p, "swap_usage">>], c[<<p, "swap_max">>])
           par == EffSwapUtil(c, Parent(p))
       IN IF c[<<p, "swap_max">>] = 0 THEN [num |-> 0, den |-> 1]      \* early out of the implementation
          ELSE IF FracGeq(par, loc) THEN par ELSE loc

Coeffs(kind) == IF kind = "ssd" THEN cfgS.ssd ELSE cfgS.hdd
\* io.stat : Seq of [dev, rbytes, wbytes, rios, wios, dbytes, dios]
IoCost(stat) ==
  LET RECURSIVE Sum(_)
      Sum(i) == IF i = 0 THEN 0
                ELSE LET d == stat[i] IN
                     (IF d.dev \in DOMAIN cfgS.devs
                      THEN LET k == Coeffs(cfgS.devs[d.dev]) IN
                           d.rios * k.read_iops + d.rbytes * k.readbw + d.wios * k.write_iops
                           + d.wbytes * k.writebw + d.dios * k.trim_iops + d.dbytes * k.trimbw
                      ELSE 0) + Sum(i - 1)
  IN Sum(Len(stat))

Arch(p) == IF p \in DOMAIN arch /\ arch[p].gen = K[p].gen THEN arch[p]
           ELSE [gen |-> 0, hasAvg |-> FALSE, avg |-> 0, hasIo |-> FALSE, io |-> 0, hasPg |-> FALSE, pg |-> 0]

\* ---------------------------------------------------------------- observable queries
\* Each query takes the observed answer; `tol` answers are accepted within one unit.
Within(t, v, num, den) == (v - t) * den <= num /\ (v + t) * den >= num      \* |v - num/den| <= t
Within1(v, num, den) == Within(1, v, num, den)

QueryOk(p, f, c, v) ==
  CASE f \in RawFields \ {"mstat"} -> v = c[<<p, f>>]
    [] f = "anon_usage" -> v = c[<<p, "mstat">>].anon
    [] f = "file_usage" -> v = c[<<p, "mstat">>].file
    [] f = "shmem_usage" -> v = c[<<p, "mstat">>].shmem
    [] f = "pg_scan_cumulative" -> v = c[<<p, "mstat">>].pgscan
    [] f = "effective_swap_max" -> v = EffSwapMax(c, p)
    [] f = "effective_swap_free" -> v = EffSwapFree(c, p)
    \* ("max" is 2^63-1 bytes: a usage of tens of TiB against it is a few parts per million, not 0)
    [] f = "effective_swap_util_ppm" -> LET u == EffSwapUtil(c, p) IN Within(6, v, u.num * 1000000, u.den)
    [] f = "memory_protection" -> LET x == ProtFrac(c, p) IN Within(Len(p), v, x.num, x.den)
    [] f = "effective_usage" -> LET x == ProtFrac(c, p) IN Within(Len(p), c[<<p, "current_usage">>] - v, x.num, x.den)
    [] f = "io_cost_cumulative" -> v = IoCost(c[<<p, "io_stat">>])
    [] f = "io_cost_rate" -> v = (IF Arch(p).hasIo THEN IoCost(c[<<p, "io_stat">>]) - Arch(p).io ELSE 0)
    [] f = "pg_scan_rate" -> v = (IF Arch(p).hasPg THEN c[<<p, "mstat">>].pgscan - Arch(p).pg ELSE 0)
    [] f = "average_usage" ->
         LET prev == IF Arch(p).hasAvg THEN Arch(p).avg ELSE 0
             d == cfgS.decay
         IN Within1(v, prev * (d - 1) + c[<<p, "current_usage">>], d)

\* what a query leaves behind for the archive
Obtains(p, f, c, v) ==
  CASE f = "average_usage" -> {<<<<p, "avg">>, [v |-> v, gen |-> K[p].gen]>>}
    [] f \in {"io_cost_cumulative", "io_cost_rate"} -> {<<<<p, "io">>, [v |-> IoCost(c[<<p, "io_stat">>]), gen |-> K[p].gen]>>}
    [] f \in {"pg_scan_cumulative", "pg_scan_rate"} -> {<<<<p, "pg">>, [v |-> c[<<p, "mstat">>].pgscan, gen |-> K[p].gen]>>}
    [] OTHER -> {}

SInit == /\ K = <<>> /\ sys = [swaptotal |-> 0, swapused |-> 0] /\ cache = <<>> /\ obt = <<>> /\ arch = <<>>
         /\ cfgS = [devs |-> <<>>, ssd |-> <<>>, hdd |-> <<>>, decay |-> 4] /\ tickS = 0

SReset(k, s, cfg) ==
  /\ K' = k /\ sys' = s /\ cfgS' = cfg /\ cache' = <<>> /\ obt' = <<>> /\ arch' = <<>> /\ tickS' = 0

\* the kernel changes a cgroup's files, at any time
KernelChange(p, rec) ==
  /\ p \in DOMAIN K /\ rec.gen = K[p].gen
  /\ K' = [K EXCEPT ![p] = rec]
  /\ UNCHANGED <<sys, cache, obt, arch, cfgS, tickS>>

SysChange(s) == sys' = s /\ UNCHANGED <<K, cache, obt, arch, cfgS, tickS>>

\* cgroups are created / removed / re-created between ticks (k: the new tree), before the refresh
TreeChange(k) ==
  /\ K' = k
  /\ UNCHANGED <<sys, cache, obt, arch, cfgS, tickS>>

\* has: the accessor returned a value (only pg_scan_rate may legitimately be unavailable: no previous sample)
Query(p, f, has, v) ==
  /\ p \in DOMAIN K
  /\ has = (f # "pg_scan_rate" \/ Arch(p).hasPg)
  /\ LET c == FillFor(cache, p, f) IN
       /\ QueryOk(p, f, c, v)
       /\ cache' = c
       /\ LET o == Obtains(p, f, c, v) IN
          obt' = [k \in DOMAIN obt \cup {x[1] : x \in o} |->
                    IF k \in DOMAIN obt THEN obt[k] ELSE (CHOOSE x \in o : x[1] = k)[2]]
  /\ UNCHANGED <<K, sys, arch, cfgS, tickS>>

\* a cgroup that does not exist yields no context at all
QueryMissing(p) == p \notin DOMAIN K /\ UNCHANGED svars

\* OomdContext::refresh at the start of the next tick
Has(p, kind) == <<p, kind>> \in DOMAIN obt /\ obt[<<p, kind>>].gen = K[p].gen   \* same cgroup, not a re-creation
Refresh ==
  /\ arch' = [p \in DOMAIN K |->
                [gen |-> K[p].gen,
                 hasAvg |-> Has(p, "avg"), avg |-> IF Has(p, "avg") THEN obt[<<p, "avg">>].v ELSE 0,
                 hasIo |-> Has(p, "io"), io |-> IF Has(p, "io") THEN obt[<<p, "io">>].v ELSE 0,
                 hasPg |-> Has(p, "pg"), pg |-> IF Has(p, "pg") THEN obt[<<p, "pg">>].v ELSE 0]]
  /\ cache' = <<>> /\ obt' = <<>> /\ tickS' = tickS + 1
  /\ UNCHANGED <<K, sys, cfgS>>

\* ---------------------------------------------------------------- properties
\* a value obtained in a tick does not change within the tick (the cache only grows)
CacheOnlyGrows == [][ tickS' = tickS =>
                       \A k \in DOMAIN cache : k \in DOMAIN cache' /\ cache'[k] = cache[k] ]_svars
\* a new tick re-reads everything
FreshNextTick == [][ tickS' # tickS => cache' = <<>> ]_svars
\* history does not survive re-creation
NoStaleArchive == \A p \in DOMAIN arch : (p \in DOMAIN K /\ arch[p].gen # K[p].gen) =>
                     ~Arch(p).hasAvg /\ ~Arch(p).hasIo /\ ~Arch(p).hasPg
=============================================================================
