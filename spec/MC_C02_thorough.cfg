SPECIFICATION MCSpec
CONSTANTS
  MCConfigs <- CfgPlain
  MCUnits <- NoUnits
  MCTags = {}
  MaxTicks = 3
  MaxOps = 0
  DTs = {0, 2000}
  Advs = {0}
  DetRets = {"CONTINUE", "STOP", "ASYNC"}
  ActRets = {"CONTINUE", "STOP", "ASYNC"}
  ProbePaths = {}
INVARIANTS TypeOK AllRunOnce ChainRule NoActionInPause PauseIsDeclared FreshUuids NoUseAfterDestroy DropinOrderOk AddedStatOk HookOrderOk
CHECK_DEADLOCK FALSE
