--------------------------- MODULE MC_CgroupPath ---------------------------
(* C16.  Stage S: the algebraic laws of CgroupPath.tla are checked on every string over Sigma up *)
(* to the configured length (each case is one initial state, the laws are invariants).           *)
(* Stage B (replay): the same enumeration is written out with the specification's results and    *)
(* path_replay.cpp evaluates the real CgroupPath / Fs::glob / PluginArgParser on every case.     *)
(* laws hold for the model on the domain  /\  impl = model pointwise on the domain               *)
(*   =>  laws hold for the implementation on the domain.                                         *)
EXTENDS CgroupPath, TLC, Json, IOUtils, SequencesExt

CONSTANTS MaxLen,    \* unary cases: all strings up to this length
          PairLen,   \* hook-match cases: all pairs of strings up to this length
          GlobPatLen \* glob cases: patterns up to this length

Sigma == {"a", "b", "/", "*", "?", "."}
Strs(n) == UNION {[1..k -> Sigma] : k \in 0..n}

\* directory trees for resolution: entries are canonical paths; files never match
N(s) == [i \in 1..Len(s) |-> s[i]]
Trees ==
  { [dirs |-> {<<<<"a">>>>, <<<<"a", "b">>>>, <<<<"b">>>>, <<<<"a">>, <<"a">>>>, <<<<"a">>, <<"b">>>>, <<<<"b">>, <<"a">>>>},
     files |-> {<<<<"a", "a">>>>, <<<<"a">>, <<"a", "b">>>>}],
    [dirs |-> {<<<<".", "a">>>>, <<<<"a">>>>, <<<<"a">>, <<".", "b">>>>, <<<<"a">>, <<"b", "a">>>>},
     files |-> {<<<<"b">>>>}],
    [dirs |-> {}, files |-> {<<<<"a">>>>}] }

\* patterns for resolution: no "." or ".." components (aliases of directories are outside the model)
DotFree(s) == \A cmp \in {Split(s)[i] : i \in DOMAIN Split(s)} : cmp # <<".">> /\ cmp # <<".", ".">>
GlobPats == {s \in Strs(GlobPatLen) : DotFree(s)}

VARIABLE c
Case(kind, s, t, tree) == [kind |-> kind, s |-> s, t |-> t, tree |-> tree]
NoTree == [dirs |-> {}, files |-> {}]
Cases ==
  {Case("U", s, <<>>, NoTree) : s \in Strs(MaxLen)}
  \cup {Case("H", s, t, NoTree) : s \in Strs(PairLen), t \in Strs(PairLen)}
  \cup {Case("G", s, <<>>, tr) : s \in GlobPats, tr \in Trees}

Init == c \in Cases
Next == UNCHANGED c
Spec == Init /\ [][Next]_c

FS == <<"/", "f", "s">>
P(s) == Canon(FS, s)

\* ---------------------------------------------------------------- laws (C16 statement)
NoEmptyComponents == c.kind = "U" => \A i \in DOMAIN Split(c.s) : Split(c.s)[i] # <<>>
CanonIdempotent == c.kind = "U" => P(Rel(P(c.s))) = P(c.s)
SlashInsensitive ==
  c.kind = "U" => /\ P(<<"/">> \o c.s) = P(c.s)
                  /\ P(c.s \o <<"/">>) = P(c.s)
                  /\ \A i \in DOMAIN c.s : c.s[i] = "/" =>
                        P(SubSeq(c.s, 1, i) \o <<"/">> \o SubSeq(c.s, i + 1, Len(c.s))) = P(c.s)
FsTrailingSlash == c.kind = "U" => Canon(FS \o <<"/">>, c.s) = P(c.s)
AbsIsRootPlusRel ==
  c.kind = "U" => Abs(P(c.s)) = (IF Rel(P(c.s)) = <<>> THEN FS ELSE FS \o <<"/">> \o Rel(P(c.s)))
ChildParentInverse ==
  c.kind = "U" => \A x \in {<<"a">>, <<"*">>, <<"a", ".", "b">>} : Parent(Child(P(c.s), x)) = P(c.s)
RootIffEmpty == c.kind = "U" => (IsRoot(P(c.s)) <=> Rel(P(c.s)) = <<>>)
\* descending by ANY string (several components, empty, slashes only) is the same as constructing the joined path
ChildIsConcat == c.kind = "H" => Child(P(c.s), c.t) = P(c.s \o <<"/">> \o c.t)
HookThree == c.kind = "H" => (HookMatch(Split(c.s), Split(c.t)) <=> HookThreeCases(Split(c.s), Split(c.t)))
HookStarWholeComponentOnly ==
  c.kind = "H" => \A i \in DOMAIN Split(c.t) :
     (i <= Len(Split(c.s)) /\ Split(c.t)[i] # <<"*">> /\ Split(c.t)[i] # Split(c.s)[i]) => ~HookMatch(Split(c.s), Split(c.t))
GlobOnlyDirs == c.kind = "G" => Glob(c.tree.dirs, Split(c.s)) \subseteq (c.tree.dirs \cup {<<>>})
GlobComplete == c.kind = "G" => \A d \in c.tree.dirs : PatMatch(Split(c.s), d) => d \in Glob(c.tree.dirs, Split(c.s))

\* ---------------------------------------------------------------- case file for the replay
Result(k) ==
  IF k.kind = "U" THEN [kind |-> "U", s |-> k.s, parts |-> Split(k.s), rel |-> Rel(P(k.s)), abs |-> Abs(P(k.s)),
                        root |-> IsRoot(P(k.s))]
  ELSE IF k.kind = "H" THEN [kind |-> "H", s |-> k.s, t |-> k.t, match |-> HookMatch(Split(k.s), Split(k.t)),
                             childParts |-> Child(P(k.s), k.t).parts, childAbs |-> Abs(Child(P(k.s), k.t)),
                             childRoot |-> IsRoot(Child(P(k.s), k.t))]
  ELSE [kind |-> "G", s |-> k.s, dirs |-> SetToSeq(k.tree.dirs), files |-> SetToSeq(k.tree.files),
        res |-> SetToSeq(Glob(k.tree.dirs, Split(k.s)))]

DumpCases == LET seq == SetToSeq(Cases) IN
             ndJsonSerialize(IOEnv.CASES, [i \in DOMAIN seq |-> Result(seq[i])])
=============================================================================
