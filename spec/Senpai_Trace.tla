---------------------------- MODULE Senpai_Trace ----------------------------
(* Stage B for C18: every write(2) of the real senpai plugin on control files of the simulated    *)
(* cgroupfs and on the swappiness file (senpai_driver.cpp) must be a step of Senpai.tla.          *)
EXTENDS Senpai, Json, IOUtils
VARIABLE l
tvars == <<sv, l>>
TraceLog == ndJsonDeserialize(IOEnv.TRACE)
N == Len(TraceLog)
Ev == TraceLog[l]
IsEv(name) == l <= N /\ Ev.e = name
Consume == l' = l + 1
TraceInit == SInit /\ l = 1 /\ TLCSet(1, 0)
TReset == IsEv("SReset") /\ Consume /\ SReset(Ev.cfg)
TBegin == IsEv("STick") /\ Consume /\ TickBegin(Ev.cgs, Ev.sys)
TWrite == IsEv("CtlWrite") /\ Consume /\ Write(Ev.p, Ev.file, Ev.v)
TWriteFailed == IsEv("CtlWriteFailed") /\ Consume /\ WriteFailed(Ev.p, Ev.file)
TVanish == IsEv("Vanish") /\ Consume /\ Vanish(Ev.p)
TSwp == IsEv("Swp") /\ Consume /\ Swappiness(Ev.v)
TTickEnd == IsEv("STickEnd") /\ Consume /\ TickEnd
TEnd == IsEv("SEnd") /\ Consume /\ pos = 0 /\ UNCHANGED sv
TSilent == SSilent /\ UNCHANGED l
TraceNext == TReset \/ TVanish \/ TBegin \/ TWrite \/ TWriteFailed \/ TSwp \/ TTickEnd \/ TEnd \/ TSilent
TraceSpec == TraceInit /\ [][TraceNext]_tvars
TraceProgress == TLCSet(1, IF TLCGet(1) < l THEN l ELSE TLCGet(1))
TraceAccepted == /\ PrintT(<<"MAXL", TLCGet(1), "OF", N>>) /\ TLCGet(1) = N + 1
=============================================================================
