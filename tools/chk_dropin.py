"""C14: drop-in directory watcher.  Stage S: TLC on MC_DropInWatcher - every interleaving of a bounded number of
file operations with the watcher thread and the main loop: convergence (invariant and liveness form), lock
discipline, dot files never reach the engine, start-up load in name order, shutdown completes.  Stage B: the real
FsDropInService on a real directory (inotify) under ThreadSanitizer with a concurrent file-operation thread,
seeded yields at the hook points and contents of every kind; the recorded hook / operation / engine events must be a
behaviour of DropInWatcher.tla, and after quiescence the engine must run exactly the valid non-dot files."""
import vlib

ASSUME = ['inotify semantics assumed by the kernel actions of the specification: events are queued in order for the watched inode only, an event identical to the last queued one may be coalesced, IN_MODIFY for every write(2) and (optionally) for truncation, IN_MOVED_FROM/TO for rename, IN_DELETE_SELF on rmdir',
          'a file operation is logged as call and return by the operation thread, its kernel steps are internal steps TLC places in between; one operation thread, one main thread, one watcher thread',
          'hook points (OOMD_VERIF) report the watcher\'s events and every hand-off from inside the critical section they belong to; the set of active drop-ins is observed as the scripted detectors the real engine ran in a tick (ids carry the content version)',
          'interleavings are those the scheduler produces plus seeded yields/sleeps injected at the hook points; data races are observed only through ThreadSanitizer on those schedules',
          'directory rename (IN_MOVE_SELF with the files surviving elsewhere) is outside the statement and not generated',
          'validity of a file is known by construction of its content (valid drop-ins for two base rulesets; garbage, partial, truncated, empty, binary, unknown ruleset, unknown plugin, failing init, ruleset without drop-in permission, non-numeric post_action_delay)']


def run(pid, tier, tmp, replay):
    n = 120 if tier == 'quick' else 2500
    cfgs = ['MC_C14_quick.cfg', 'MC_C14_quick_stop.cfg'] if tier == 'quick' else ['MC_C14_thorough.cfg', 'MC_C14_thorough_b3.cfg', 'MC_C14_quick_stop.cfg']
    vlib.trace_family_check(pid, tier, tmp, replay, variant='tsan', driver='dropin_driver', driver_args=[vlib.seed(), n],
                            trace_module='DropInWatcher_Trace.tla', trace_cfg='DropInWatcher_Trace.cfg',
                            mc_module='MC_DropInWatcher.tla', mc_cfg=cfgs, assume=ASSUME,
                            sample_re=r'\{"e":"(FsCall|WEvent|Sched|Swap|Apply|Active|Settle|Reg)"', mc_workers=10,
                            extra_cov=lambda lines: {'file_operations': sum(1 for l in lines if l.startswith('{"e":"FsCall"')),
                                                     'watcher_events': sum(1 for l in lines if l.startswith('{"e":"WEvent"')),
                                                     'ticks': sum(1 for l in lines if l.startswith('{"e":"Tick"')),
                                                     'directory_recreations': sum(1 for l in lines if l.startswith('{"e":"Reg"')) - sum(1 for l in lines if l.startswith('{"e":"SReset"')),
                                                     'settle_checks': sum(1 for l in lines if l.startswith('{"e":"Settle"'))})
