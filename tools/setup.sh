#!/bin/sh
# Run once after a fresh restore (offline): prebuild /repo into /verif/build/<variant> with the
# hook guard on, and the conformance drivers.  Checks rebuild incrementally afterwards.
set -e
cd /verif
python3 - <<'PY'
import sys
sys.path.insert(0, '/verif/tools')
import vlib, threading
errs = []
def b(v):
    try:
        vlib.build(v, None)
    except Exception as e:
        errs.append((v, e))
ts = [threading.Thread(target=b, args=(v,)) for v in ('plain', 'asan', 'tsan')]
[t.start() for t in ts]; [t.join() for t in ts]
for v, e in errs:
    print('setup: build of variant %s failed: %s' % (v, e))
sys.exit(1 if errs else 0)
PY
