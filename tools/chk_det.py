"""C08: detectors.  Stage S: TLC checks that the arm/disarm state machines of Detectors.tla agree with
the documented predicates over every sample history within the constants.  Stage B: the return value of
each real core detector per tick (simulated cgroupfs, virtual clock) must equal the specification's verdict."""
import vlib

ASSUME = ['CLOCK_MONOTONIC is virtual and never 0 (time_point() is the detectors\' "not armed" sentinel)',
          'pressure values have two decimals; pressure_rising_beyond samples exactly on the fast_fall_ratio boundary are nudged by 0.01 (float rounding band)',
          'swap_free: the threshold is floor(total*pct/100) bytes as in the code; totals are multiples of 100 so that this equals the documented percentage',
          'memory_reclaim treats the pgscan before the first sample as 0 (as the code does)']


def run(pid, tier, tmp, replay):
    n = 700 if tier == 'quick' else 14000
    vlib.trace_family_check(pid, tier, tmp, replay, variant='plain', driver='det_driver', driver_args=[vlib.seed(), n],
                            trace_module='Detectors_Trace.tla', trace_cfg='Detectors_Trace.cfg',
                            mc_module='MC_Detectors.tla', mc_cfg='MC_C08_%s.cfg' % tier, assume=ASSUME,
                            sample_re=r'\{"e":"(SReset|DTick)"')
