#!/bin/bash
# usage: tools/mutant_alt.sh <patch.diff> <property id>...  - like mutant.sh, but on a CLONE of /repo (/tmp/alt/repo,
# kept at /repo's HEAD) with its own build tree and output directory, so that it can run while checks use /repo.
patch="$(readlink -f "$1")"; shift
A=${ALT_DIR:-/tmp/alt}; mkdir -p $A/out
if [ ! -d $A/repo/.git ]; then git clone -q /repo $A/repo || exit 2; fi
cd $A/repo || exit 2
git checkout -q -- . ; git fetch -q origin && git reset -q --hard origin/main
if git apply --check "$patch" 2>/dev/null; then git apply "$patch"; elif git apply -3 "$patch" 2>/dev/null; then git reset -q; else echo "patch does not apply: $patch"; exit 3; fi
for id in "$@"; do
  out=$(cd /verif && VERIF_REPO=$A/repo VERIF_BUILD=$A/build VERIF_OUT=$A/out tools/check "$id" --tier quick 2>&1); rc=$?
  echo "$id exit=$rc $(echo "$out" | grep -E '^VIOLATION|^ERROR' | head -2 | tr '\n' ' ')"
done
git checkout -q -- .
