"""C15: cgroup statistics.  Stage S: TLC on MC_CgroupStats (cache / archive design vs. the temporal
clauses).  Stage B: every answer of the real CgroupContext accessors on a simulated cgroupfs rendered
from an abstract kernel state is validated against CgroupStats_Trace."""
import vlib

ASSUME = ['the renderer (abstract kernel state -> file text, in stats_driver.cpp) is trusted; concrete values are small x U with U in {1, 4096, 2^31+7, 2^40}, "max" literals and 0',
          'ratio-valued statistics (memory_protection, average_usage, effective_usage) are compared only in U=1 executions, within the truncation tolerance stated in CgroupStats.tla',
          'files are present and well-formed here (missing / empty / vanishing files: C10); system swap totals change only between ticks',
          'a directory listing may fail half way (an entry vanishing between readdir and fstatat) as the last access of a tick: the next tick must list completely; other structure changes happen between ticks']


def _cov(lines, replay):
    n = sum(1 for l in lines if l.startswith('{"e":"ListFault"'))
    if not replay and n == 0:
        raise vlib.Infra('vacuity guard: no directory listing failed half way in this run')
    return {'listings_failed_half_way': n}


def run(pid, tier, tmp, replay):
    n = 400 if tier == 'quick' else 6000
    vlib.trace_family_check(pid, tier, tmp, replay, variant='plain', driver='stats_driver', driver_args=[vlib.seed(), n],
                            trace_module='CgroupStats_Trace.tla', trace_cfg='CgroupStats_Trace.cfg',
                            mc_module='MC_CgroupStats.tla', mc_cfg='MC_C15_%s.cfg' % tier, assume=ASSUME,
                            sample_re=r'\{"e":"(Q|KC|Refresh|Tree)"', extra_cov=lambda lines: _cov(lines, replay))
