"""C20: asynchronous logger.  Stage S: TLC on MC_AsyncLog (exactly once, per-thread FIFO, bounded backlog,
drops reported, flush on shutdown as a liveness property under fairness).  Stage B: the real async Log with
a blockable sink under ThreadSanitizer; hook points inside the logger's lock and the sink's lines form one
linearised event log validated against AsyncLog_Trace."""
import json
import vlib

ASSUME = ['hook points (OOMD_VERIF) are emitted while the logger\'s lock is held, so the event log is a linearisation; sink lines are emitted by the single flusher thread in program order',
          'a data race inside a critical section is invisible to the TLA+ model (actions are atomic); it is observed only through ThreadSanitizer on the executed schedules',
          'interleavings are those the scheduler produces with 1-5 producer threads, a sink blocked while up to tens of MiB are offered, and shutdown after the producers finished']


def run(pid, tier, tmp, replay):
    n = 150 if tier == 'quick' else 3000
    cap = 1048576

    def extra(lines):
        # the statement's literal bound: bytes accepted and not yet written <= 1 MiB.  The double buffer holds up to
        # one cap in the queue plus one cap in the batch being written: measured here, reported as a known finding.
        unwritten, worst, size_of = 0, 0, {}
        for l in lines:
            if l.startswith('{"e":"SReset"'):
                unwritten, size_of = 0, {}
            elif l.startswith('{"e":"Accept"'):
                e = json.loads(l); size_of[(e['thr'], e['i'])] = e['size']; unwritten += e['size']; worst = max(worst, unwritten)
            elif l.startswith('{"e":"Sink"'):
                e = json.loads(l); unwritten -= size_of.pop((e['thr'], e['i']), 0)
        return {'max_unwritten_bytes': worst, 'drops': sum(1 for l in lines if l.startswith('{"e":"Drop"'))}

    def known(rej, seg):
        return None
    # two-buffer backlog: decided after the run from the evidence numbers
    import os
    vlib.trace_family_check(pid, tier, tmp, replay, variant='tsan', driver='log_driver', driver_args=[vlib.seed(), n],
                            trace_module='AsyncLog_Trace.tla', trace_cfg='AsyncLog_Trace.cfg',
                            mc_module='MC_AsyncLog.tla', mc_cfg='MC_C20_%s.cfg' % tier, assume=ASSUME,
                            sample_re=r'\{"e":"(Accept|Drop|Swap|Sink|DropsReported|Stop)"', extra_cov=extra, mc_workers=8,
                            post=lambda cov: (['key=backlog-two-buffers up to %d bytes were accepted and not yet written (cap 1048576): the queue and the batch being written each hold up to one cap' % cov['max_unwritten_bytes']]
                                              if cov.get('max_unwritten_bytes', 0) > cap else []))
