#!/bin/bash
# usage: tools/intake_round.sh <round dir, e.g. /tmp/seed5> <k>  - take every <round dir>/<ID>/seed_out/1 that is complete
# (meta.json present) and not yet stored as seeded/<ID>-<k>: confirm it in a scratch worktree, run the quick check of its
# property against it on the clone (tools/mutant_alt.sh), append one line to <round dir>/intake.log.  Polls until all 20
# are in or 150 minutes have passed.
rd=$1; k=$2; end=$(( $(date +%s) + 9000 ))
while [ $(date +%s) -lt $end ]; do
  n=0
  for i in $(seq -w 1 20); do
    id=C$i; src=$rd/$id/seed_out/1; dst=/verif/seeded/$id-$k
    [ -f $dst/confirm.txt ] && { n=$((n+1)); continue; }
    [ -f $src/meta.json ] && [ -f $src/patch.diff ] || continue
    # the agent has finished when its worktree is clean again
    [ -z "$(git -C $rd/$id status --short | grep -v '^??')" ] || continue
    [ -d $rd/$id/_build ] && continue
    rm -rf $dst; mkdir -p $dst; cp -r $src/. $dst/
    conf=$(/verif/tools/confirm_seed.sh $dst 2>&1 | tr '\n' ' ')
    res=$(ALT_DIR=/tmp/alt /verif/tools/mutant_alt.sh $dst/patch.diff $id 2>&1 | tail -1 | cut -c1-70)
    echo "$id-$k | $conf | $res" >> $rd/intake.log
    n=$((n+1))
  done
  [ $n -ge 20 ] && break
  sleep 20
done
echo "intake done: $n" >> $rd/intake.log
