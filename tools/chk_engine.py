"""C02 C05 C06 C11 C13: rule engine.  Stage S: TLC on MC_Engine (per-property constants, plus a
one-worker witness run guarding against vacuity).  Stage B: traces of the real engine driven by
engine_driver are validated against Engine_Trace (every invariant evaluated on every state)."""
import json, os, re, threading, time
import vlib

P = {
    'C02': dict(profile='plain', variant='plain', n=dict(quick=200, thorough=4000),
                wit=('MC_wit_plain.cfg', ['LaterGroupFired', 'AsyncDetectorCountsAsContinue', 'ChainRanOffEnd',
                                           'PausedBlocksFiring', 'Resumed'])),
    'C05': dict(profile='c05', variant='plain', n=dict(quick=200, thorough=4000),
                wit=('MC_wit_plain.cfg', ['PausedBlocksFiring', 'OwnDelayApplied', 'RunsAgainExactlyAtBoundary',
                                           'ResumedWithoutFiring'])),
    'C06': dict(profile='c06', variant='plain', n=dict(quick=200, thorough=4000),
                wit=('MC_wit_plain.cfg', ['Resumed', 'ResumedWithoutFiring', 'ResumedWhileFiring',
                                           'PausedTwiceInARow', 'ChainRanOffEnd'])),
    'C11': dict(profile='c11', variant='asan', n=dict(quick=150, thorough=3000),
                wit=('MC_wit_cg.cfg', ['TwoInstances', 'InstanceStatePersisted', 'InstanceDiscarded',
                                        'InstanceRecreatedAfterAbsence'])),
    'C13': dict(profile='c13', variant='plain', n=dict(quick=250, thorough=5000),
                wit=('MC_wit_drop.cfg', ['BaseDisabled', 'TwoDropinsOnOneBase', 'RemovedAnAddedTag', 'ReAddedTag',
                                          'DropinHook'])),
}

ASSUME = [
    'plugins are scripted: return values, clock advances inside run() and own post_action_delay come from the seeded generator (real detectors/kill plugins are bound by C08/C09/C01..)',
    'CLOCK_MONOTONIC is virtual (clock_gettime interposed in the driver executable)',
    'stage S is exhaustive only within the constants of the .cfg file named in coverage.mc_configs',
    'cgroup patterns in the engine model use whole-component "*" only (full glob semantics: C16)',
]


def replay_is_kill(replay):
    return bool(replay) and open(replay).readline().startswith('{"e":"KReset"')


def replay_is_dropin(replay):
    return bool(replay) and open(replay).readline().startswith('{"e":"SReset"')


def run(pid, tier, tmp, replay):
    t0 = time.time()
    cfg = P[pid]
    vlib.build(cfg['variant'], ['engine_driver'])
    violations, notes = [], []

    # ---------------- stage S (in parallel with stage B's execution of the real code)
    mc_res, wit_res, errs = {}, {}, []

    def stage_s():
        try:
            mc_res.update(vlib.tlc_mc('MC_Engine.tla', 'MC_%s_%s.cfg' % (pid, tier), tmp,
                                      workers=12, timeout=1500 if tier == 'thorough' else 400))
        except Exception as e:  # noqa
            errs.append(e)

    def stage_w():
        try:
            r = vlib.tlc_mc('MC_Engine.tla', cfg['wit'][0], tmp, workers=1, timeout=400)
            m = re.search(r'"WITNESSES",\s*\{([^}]*)\}', r['out'])
            seen = set(re.findall(r'"(\w+)"', m.group(1))) if m else set()
            wit_res.update(seen=seen, states=r['distinct'])
        except Exception as e:  # noqa
            errs.append(e)

    ths = [threading.Thread(target=stage_s), threading.Thread(target=stage_w)]
    for t in ths:
        t.start()

    # ---------------- stage B
    n = cfg['n'][tier]
    trace = os.path.join(tmp, 'engine.ndjson')
    args = [trace, vlib.seed(), n, cfg['profile']]
    if replay and (replay_is_kill(replay) or replay_is_dropin(replay)):
        args = [trace, vlib.seed(), 1, cfg['profile']]      # the replay file is an execution of kill_driver / dropin_driver (below)
    elif replay:
        first = json.loads(open(replay).readline())
        args = [trace, first['seed'], 1, first['profile'], first['scn']]
    rc, errlog = vlib.run_driver(cfg['variant'], 'engine_driver', args, tmp, timeout=900)
    if rc != 0:
        raise vlib.Infra('engine_driver exited with %s: %s' % (rc, open(errlog, errors='replace').read()[-1500:]))
    val = vlib.validate_trace('Engine_Trace.tla', 'Engine_Trace.cfg', trace, tmp, timeout=3000)
    dval = None
    if pid == 'C13' and (not replay or replay_is_dropin(replay)):
        # re-adding / replacing a tag through the FILE based service (FsDropInService in front of the adaptor): an add
        # that follows a failed add of the same tag, or repeats an earlier content, must still reach the engine
        vlib.build('tsan', ['dropin_driver'])
        dtrace = os.path.join(tmp, 'dropin.ndjson')
        dargs = [dtrace, vlib.seed(), 40 if tier == 'quick' else 600]
        if replay:
            first = json.loads(open(replay).readline())
            dargs = [dtrace, first['seed'], 1, first['scn']]
        drc, derr = vlib.run_driver('tsan', 'dropin_driver', dargs, tmp, timeout=900)
        if drc not in (0, 66):
            raise vlib.Infra('dropin_driver exited with %s' % drc)
        dval = vlib.validate_trace('DropInWatcher_Trace.tla', 'DropInWatcher_Trace.cfg', dtrace, tmp)
    kval = None
    if pid == 'C05':
        # the delay rule around REAL kill plugins (own post_action_delay, always_continue, a later action stopping the
        # chain): kill_driver runs them inside the real ruleset; KillAction_Trace's pause bookkeeping validates when
        # the action chain runs and when it must not
        vlib.build('plain', ['kill_driver'])
        ktrace = os.path.join(tmp, 'kill.ndjson')
        kargs = [ktrace, vlib.seed(), 120 if tier == 'quick' else 2500, 'c05']
        if replay and replay_is_kill(replay):
            first = json.loads(open(replay).readline())
            kargs = [ktrace, first['seed'], 1, first['profile'], first['scn']]
        krc, kerr = vlib.run_driver('plain', 'kill_driver', kargs, tmp, timeout=900)
        if krc != 0:
            raise vlib.Infra('kill_driver exited with %s: %s' % (krc, open(kerr, errors='replace').read()[-1500:]))
        kval = vlib.validate_trace('KillAction_Trace.tla', 'KillAction_Trace.cfg', ktrace, tmp, timeout=3000)
    for t in ths:
        t.join()
    if errs:
        raise errs[0]

    if not mc_res['ok']:
        p = vlib.save_replay(pid, 'model_counterexample.txt', mc_res['out'].splitlines()[-200:])
        violations.append({'replay': p, 'why': 'stage S: the engine design violates %s (TLC counterexample saved)' % mc_res['violated']})
    missing = [w for w in cfg['wit'][1] if w not in wit_res.get('seen', set())]
    if missing:
        raise vlib.Infra('vacuity guard: witnesses never reached in %s: %s' % (cfg['wit'][0], missing))

    for i, rej in enumerate(val['rejections']):
        seg = rej.pop('segment')
        p = vlib.save_replay(pid, 'rejected_%d.ndjson' % i, seg)
        why = ('invariant %s violated at' % rej['invariant']) if rej['invariant'] else 'no specification step matches'
        violations.append({'replay': p, 'why': 'stage B: %s event %d of the execution: %s (after %s)' % (
            why, rej['line_in_execution'], rej['first_unmatched'][:300], rej['last_matched'][:200])})

    if dval:
        for i, rej in enumerate(dval['rejections']):
            seg = rej.pop('segment')
            p = vlib.save_replay(pid, 'rejected_dropin_%d.ndjson' % i, seg)
            violations.append({'replay': p, 'why': 'stage B (file based drop-in service): event %d of the execution: %s (after %s)' % (
                rej['line_in_execution'], rej['first_unmatched'][:300], rej['last_matched'][:200])})
    if kval:
        for i, rej in enumerate(kval['rejections']):
            seg = rej.pop('segment')
            p = vlib.save_replay(pid, 'rejected_kill_%d.ndjson' % i, seg)
            why = ('invariant %s violated at' % rej['invariant']) if rej['invariant'] else 'no specification step matches'
            violations.append({'replay': p, 'why': 'stage B (real kill plugin in a ruleset): %s event %d of the execution: %s (after %s)' % (
                why, rej['line_in_execution'], rej['first_unmatched'][:300], rej['last_matched'][:200])})
    lines = open(trace).read().splitlines()
    sample = [json.loads(x) for x in lines[:1] + [l for l in lines if '"e":"Run"' in l][:6]]
    cov = {
        'states': mc_res['distinct'] + wit_res['states'] + val['states'],
        'transitions': mc_res['states'],
        'traces_validated_against_impl': val['accepted'] + (kval['accepted'] if kval else 0),
        'samples': [{'trace_head': sample}],
        'mc_configs': ['MC_%s_%s.cfg' % (pid, tier), cfg['wit'][0], 'Engine_Trace.cfg'],
        'mc_distinct_states': mc_res['distinct'],
        'mc_exhaustive_within_constants': bool(mc_res.get('completed')),
        'witnesses_reached': sorted(wit_res['seen']),
        'trace_executions': val['executions'], 'trace_events': val['lines'], 'trace_executions_skipped_search_limit': val.get('skipped_search_limit', 0),
        'trace_rejections': len(val['rejections']),
        'driver_profile': cfg['profile'], 'build_variant': cfg['variant'],
        'kill_plugin_executions': kval['executions'] if kval else 0, 'file_dropin_executions': dval['executions'] if dval else 0, 'kill_plugin_events': kval['lines'] if kval else 0,
        'exhaustive': False,
    }
    vlib.write_evidence(pid, tier, 'model_checking', cov, time.time() - t0, len(violations), ASSUME)
    vlib.finish(pid, violations, [])
