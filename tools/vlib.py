"""Shared machinery of the per-property checks: build, TLC runs, trace validation with
rejection localisation, known-findings handling and evidence files.  See DESIGN.md section 2."""
import fcntl, json, os, re, shutil, subprocess, sys, tempfile, time

VERIF = '/verif'
# the registered checks use the defaults; the overrides exist so that seeded changes can be tried on a CLONE of /repo
# (tools/mutant_alt.sh) while long checks run against /repo itself
REPO = os.environ.get('VERIF_REPO', '/repo')
BUILD = os.environ.get('VERIF_BUILD', os.path.join(VERIF, 'build'))
OUT = os.environ.get('VERIF_OUT', VERIF)   # where replays/ and evidence/ are written
SPEC = os.path.join(VERIF, 'spec')
TLA_JAR = '/opt/veriftools/tla/tla2tools.jar'
CM_JAR = '/opt/veriftools/tla/CommunityModules-deps.jar'


class Infra(Exception):
    """Infrastructure / model failure: exit code 2, never a VIOLATION."""


def log(*a):
    print(*a, flush=True)


def seed():
    try:
        return int(os.environ.get('VERIF_SEED', '1'))
    except ValueError:
        return 1


def scratch():
    """Scratch directory outside /repo and /verif, removed by the caller."""
    base = os.environ.get('VERIF_TMP') or tempfile.gettempdir()
    d = tempfile.mkdtemp(prefix='verif.', dir=base)
    return d


# ----------------------------------------------------------------------------- build
MESON_OPTS = {
    'plain': ['-Dcpp_args=-DOOMD_VERIF', '-Dbuildtype=debugoptimized'],
    'asan': ['-Dcpp_args=-DOOMD_VERIF -D_GLIBCXX_ASSERTIONS -fno-omit-frame-pointer',
             '-Db_sanitize=address,undefined', '-Dbuildtype=debugoptimized', '-Db_lundef=false'],
    'tsan': ['-Dcpp_args=-DOOMD_VERIF', '-Db_sanitize=thread', '-Dbuildtype=debugoptimized',
             '-Db_lundef=false'],
}


def build(variant='plain', drivers=None):
    """(Re)build liboomd from /repo's current working tree and the drivers; incremental."""
    os.makedirs(BUILD, exist_ok=True)
    lock = open(os.path.join(BUILD, '.lock.' + variant), 'w')
    fcntl.flock(lock, fcntl.LOCK_EX)
    try:
        bdir = os.path.join(BUILD, variant)
        t0 = time.time()
        if not os.path.exists(os.path.join(bdir, 'build.ninja')):
            r = subprocess.run(['meson', 'setup', bdir, REPO] + MESON_OPTS[variant],
                               stdout=subprocess.PIPE, stderr=subprocess.STDOUT, text=True)
            if r.returncode != 0:
                raise Infra('meson setup failed:\n' + r.stdout[-3000:])
        r = subprocess.run(['ninja', '-C', bdir, 'liboomd.a'], stdout=subprocess.PIPE,
                           stderr=subprocess.STDOUT, text=True)
        if r.returncode != 0:
            raise Infra('build of /repo failed (variant %s):\n%s' % (variant, r.stdout[-4000:]))
        targets = ['%s/%s/bin/%s' % (BUILD, variant, d) for d in (drivers or [])]
        r = subprocess.run(['make', '-s', '-j16', '-C', os.path.join(VERIF, 'harness'), 'V=' + variant, 'R=' + REPO, 'B=' + BUILD] + targets,
                           stdout=subprocess.PIPE, stderr=subprocess.STDOUT, text=True)
        if r.returncode != 0:
            raise Infra('build of harness failed (variant %s):\n%s' % (variant, r.stdout[-4000:]))
        return time.time() - t0
    finally:
        fcntl.flock(lock, fcntl.LOCK_UN)
        lock.close()


def run_driver(variant, name, args, tmp, timeout=600, env=None):
    exe = '%s/%s/bin/%s' % (BUILD, variant, name)
    errlog = os.path.join(tmp, name + '.stderr')
    e = dict(os.environ)
    e['VERIF_TMP'] = tmp
    e.setdefault('ASAN_OPTIONS', 'detect_leaks=0:abort_on_error=0:halt_on_error=1')
    e.setdefault('UBSAN_OPTIONS', 'halt_on_error=1:print_stacktrace=1')
    e.setdefault('TSAN_OPTIONS', 'halt_on_error=0:second_deadlock_stack=1')
    if env:
        e.update(env)
    with open(errlog, 'ab') as ef:
        try:
            r = subprocess.run([exe] + [str(a) for a in args], stdout=ef, stderr=ef, env=e,
                               timeout=timeout, cwd=tmp)
            return r.returncode, errlog
        except subprocess.TimeoutExpired:
            return 'timeout', errlog


# ----------------------------------------------------------------------------- TLC
def _tlc_cmd(module, cfg, metadir, workers, extra, java_opts):
    cmd = ['java', '-XX:+UseParallelGC'] + java_opts + ['-cp', TLA_JAR + ':' + CM_JAR,
           'tlc2.TLC', '-noGenerateSpecTE', '-workers', str(workers), '-metadir', metadir, '-config', cfg] + extra + [module]
    return cmd


RE_STATES = re.compile(r'(\d+) states generated, (\d+) distinct states found, (\d+) states left')
RE_INV = re.compile(r'Error: Invariant (\S+) is violated')
RE_MAXL = re.compile(r'<<"MAXL", (\d+), "OF", (\d+)>>')


def tlc_mc(module, cfg, tmp, workers=16, timeout=1500, extra=None, xmx='16g'):
    """Model-check spec/<module> with spec/<cfg>; returns dict(ok, states, distinct, out, violated)."""
    meta = tempfile.mkdtemp(prefix='tlcmeta.', dir=tmp)
    cmd = _tlc_cmd(module, cfg, meta, workers, extra or [], ['-Xmx' + xmx])
    t0 = time.time()
    try:
        r = subprocess.run(cmd, cwd=SPEC, stdout=subprocess.PIPE, stderr=subprocess.STDOUT,
                           text=True, timeout=timeout)
        out, rc = r.stdout, r.returncode
    except subprocess.TimeoutExpired as ex:
        out, rc = (ex.stdout or b'').decode() if isinstance(ex.stdout, bytes) else (ex.stdout or ''), 'timeout'
    shutil.rmtree(meta, ignore_errors=True)
    m = None
    for m in RE_STATES.finditer(out):
        pass
    res = {'rc': rc, 'out': out, 'wall': time.time() - t0,
           'states': int(m.group(1)) if m else 0, 'distinct': int(m.group(2)) if m else 0,
           'violated': RE_INV.findall(out),
           'completed': 'Model checking completed. No error has been found.' in out}
    if 'Temporal properties were violated' in out or 'is violated' in out and not res['violated']:
        res['violated'] = res['violated'] or ['(property)']
    res['ok'] = res['completed'] and not res['violated']
    if rc == 'timeout':
        raise Infra('TLC timed out on %s/%s after %ss' % (module, cfg, timeout))
    if not res['completed'] and not res['violated']:
        raise Infra('TLC failed on %s/%s:\n%s' % (module, cfg, out[-3000:]))
    return res


def tlc_simulate(module, cfg, tmp, num, depth, workers=8, timeout=900, seed_=1):
    """Random simulation of a spec too large to enumerate; num traces per worker."""
    return tlc_mc(module, cfg, tmp, workers=workers, timeout=timeout,
                  extra=['-simulate', 'num=%d' % num, '-depth', str(depth), '-seed', str(seed_)])


def _segments(lines):
    """Split concatenated executions at Reset lines -> list of (start, end) line index ranges."""
    starts = [i for i, ln in enumerate(lines) if ln.startswith('{"e":"Reset"') or ln.startswith('{"e":"KReset"')
              or ln.startswith('{"e":"SReset"')]
    if not starts or starts[0] != 0:
        starts = [0] + starts
    return [(s, (starts[k + 1] if k + 1 < len(starts) else len(lines))) for k, s in enumerate(starts)]


def tlc_trace_once(module, cfg, trace, tmp, timeout=900, xmx='8g'):
    meta = tempfile.mkdtemp(prefix='tlcmeta.', dir=tmp)
    cmd = _tlc_cmd(module, cfg, meta, 1, [], ['-Xmx' + xmx, '-Dtlc2.tool.queue.IStateQueue=StateDeque'])
    env = dict(os.environ)
    env['TRACE'] = trace
    try:
        r = subprocess.run(cmd, cwd=SPEC, stdout=subprocess.PIPE, stderr=subprocess.STDOUT, text=True,
                           timeout=timeout, env=env)
    except subprocess.TimeoutExpired:
        shutil.rmtree(meta, ignore_errors=True)
        raise Infra('TLC trace validation timed out (%s)' % module)
    shutil.rmtree(meta, ignore_errors=True)
    out = r.stdout
    m = RE_MAXL.search(out)
    s = None
    for s in RE_STATES.finditer(out):
        pass
    inv = RE_INV.findall(out)
    res = {'out': out, 'maxl': int(m.group(1)) if m else None, 'n': int(m.group(2)) if m else None,
           'states': int(s.group(1)) if s else 0, 'distinct': int(s.group(2)) if s else 0,
           'violated': inv}
    if inv:
        # the violating state carries l; take the last "l = <n>" printed in the error trace
        ls = re.findall(r'^/\\ l = (\d+)', out, re.M) or re.findall(r'\bl = (\d+)', out)
        res['maxl'] = int(ls[-1]) if ls else res['maxl']
        res['accepted'] = False
    elif m is None:
        raise Infra('TLC trace validation failed (%s):\n%s' % (module, out[-3000:]))
    else:
        res['accepted'] = res['maxl'] == res['n'] + 1
    return res


def validate_trace(module, cfg, trace, tmp, max_rejections=8, timeout=900):
    """Validate a concatenated trace.  A rejected execution is cut out (saved as a replay) and
    validation continues with the executions after it, so the rest is still checked.
    Returns dict(executions, accepted, rejections=[{first_unmatched, last_matched, replay, invariant}],
    states, lines)."""
    lines = open(trace).read().splitlines()
    segs = _segments(lines)
    result = {'executions': len(segs), 'accepted': 0, 'rejections': [], 'states': 0, 'lines': len(lines)}
    k = 0
    CHUNK = 400   # executions per TLC run: a thorough-tier trace of thousands of executions does not fit one JVM heap
    result['skipped_search_limit'] = 0
    skip = set()  # executions whose validation alone exceeds the search limit
    while k < len(segs):
        if k in skip:
            k += 1
            continue
        hi = min(k + CHUNK, len(segs))          # this run validates executions k .. hi-1 (up to the next skipped one)
        nxt = [x for x in skip if k < x < hi]
        if nxt:
            hi = min(nxt)
        part = os.path.join(tmp, 'part.%d.ndjson' % k)
        with open(part, 'w') as f:
            f.write('\n'.join(lines[segs[k][0]:segs[hi - 1][1]]) + '\n')
        try:
            r = tlc_trace_once(module, cfg, part, tmp, timeout=timeout if len(segs) <= CHUNK else max(150, (hi - k) // 2))
        except Infra:
            # Some execution makes TLC's search over the unlogged steps explode (e.g. many equally ranked candidates:
            # factorially many rankings).  It must not take the whole run down: every execution of the chunk is tried
            # alone (8 at a time, 60 s each); those that still exceed the limit are SKIPPED and counted in the
            # evidence - neither accepted nor rejected.
            os.unlink(part)
            from concurrent.futures import ThreadPoolExecutor

            def alone(i):
                p1 = os.path.join(tmp, 'one.%d.ndjson' % i)
                with open(p1, 'w') as f1:
                    f1.write('\n'.join(lines[segs[i][0]:segs[i][1]]) + '\n')
                try:
                    tlc_trace_once(module, cfg, p1, tmp, timeout=60)
                    return None
                except Infra:
                    return i
                finally:
                    os.unlink(p1)
            with ThreadPoolExecutor(max_workers=8) as ex:
                bad = [i for i in ex.map(alone, range(k, hi)) if i is not None]
            if not bad:
                raise
            skip.update(bad)
            result['skipped_search_limit'] += len(bad)
            continue
        os.unlink(part)
        result['states'] += r['distinct']
        if r['accepted']:
            result['accepted'] += hi - k
            k = hi
            continue
        # locate the execution containing the first unmatched line (1-based line maxl of part)
        bad_line = segs[k][0] + (r['maxl'] or 1) - 1
        j = max(i for i in range(k, hi) if segs[i][0] <= min(bad_line, len(lines) - 1))
        result['accepted'] += j - k
        rej = {'first_unmatched': lines[bad_line] if bad_line < len(lines) else '<end of trace>',
               'last_matched': lines[bad_line - 1] if 0 < bad_line <= len(lines) else '',
               'line_in_execution': bad_line - segs[j][0] + 1,
               'invariant': r['violated'][0] if r['violated'] else None,
               'segment': lines[segs[j][0]:segs[j][1]]}
        result['rejections'].append(rej)
        if len(result['rejections']) >= max_rejections:
            break
        k = j + 1
    return result


# ----------------------------------------------------------------------------- findings
def known_findings_text():
    """Lines of /verif/known_findings.txt ('fixed: ...' / 'known: ...'); read-only."""
    path = os.path.join(VERIF, 'known_findings.txt')
    out = []
    if os.path.exists(path):
        for ln in open(path):
            ln = ln.strip()
            if ln and not ln.startswith('#'):
                out.append(ln)
    return out


def save_replay(pid, name, content_lines):
    d = os.path.join(OUT, 'replays', pid)
    os.makedirs(d, exist_ok=True)
    p = os.path.join(d, name)
    with open(p, 'w') as f:
        f.write('\n'.join(content_lines) + '\n')
    return p


# ----------------------------------------------------------------------------- evidence
def write_evidence(pid, tier, level, coverage, wall, violations, assumptions):
    os.makedirs(os.path.join(OUT, 'evidence'), exist_ok=True)
    ev = {'property_id': pid, 'tier': tier, 'seed': seed(), 'level': level, 'coverage': coverage,
          'assumptions': assumptions, 'wall_s': round(wall, 2), 'violations': violations}
    p = os.path.join(OUT, 'evidence', pid + '.json')
    with open(p, 'w') as f:
        json.dump(ev, f, indent=1)
    return p


def finish(pid, violations, known_hits):
    """Print KNOWN-FINDING / VIOLATION lines and exit with the contract's code."""
    for k in known_hits:
        log('KNOWN-FINDING: property=%s %s' % (pid, k))
    if violations:
        for v in violations:
            log('VIOLATION property=%s replay=%s' % (pid, v['replay']))
            if v.get('why'):
                log('  ' + v['why'])
        sys.exit(1)
    log('OK property=%s' % pid)
    sys.exit(0)


# ----------------------------------------------------------------------------- generic S+B check
def trace_family_check(pid, tier, tmp, replay, *, variant, driver, driver_args, trace_module, trace_cfg,
                       mc_module, mc_cfg, assume, sample_re, wit=None, extra_cov=None, mc_workers=12,
                       reset_key='SReset', driver_timeout=1200, known_filter=None, post=None, extra_runs=()):
    """Stage S (TLC on mc_module/mc_cfg, optional one-worker witness run) in parallel with stage B
    (driver -> trace -> validation against trace_module).  Writes evidence and exits per contract."""
    import threading
    t0 = time.time()
    build(variant, [driver])
    violations, mc_res, wit_res, errs = [], {}, {}, []

    mc_cfgs = [mc_cfg] if isinstance(mc_cfg, str) else list(mc_cfg)
    mc_cfg = ', '.join(mc_cfgs)

    def stage_s():
        # one TLC run per configuration, one after the other; the numbers are summed, the first failure is kept
        try:
            tot = {'ok': True, 'states': 0, 'distinct': 0, 'completed': True, 'violated': [], 'out': ''}
            for c in mc_cfgs:
                r = tlc_mc(mc_module, c, tmp, workers=mc_workers, timeout=2400 if tier == 'thorough' else 500)
                tot['states'] += r['states']; tot['distinct'] += r['distinct']
                tot['completed'] = tot['completed'] and r['completed']
                if not r['ok'] and tot['ok']:
                    tot.update(ok=False, violated=['%s in %s' % (v, c) for v in r['violated']], out=r['out'])
            mc_res.update(tot)
        except Exception as e:  # noqa
            errs.append(e)

    def stage_w():
        try:
            r = tlc_mc(mc_module, wit[0], tmp, workers=1, timeout=600)
            m = re.search(r'"WITNESSES",\s*\{([^}]*)\}', r['out'])
            wit_res.update(seen=set(re.findall(r'"(\w+)"', m.group(1))) if m else set(), states=r['distinct'])
        except Exception as e:  # noqa
            errs.append(e)

    ths = [threading.Thread(target=stage_s)] + ([threading.Thread(target=stage_w)] if wit else [])
    for t in ths:
        t.start()
    trace = os.path.join(tmp, '%s.ndjson' % driver)
    args = [trace] + list(driver_args)
    if replay:
        first = json.loads(open(replay).readline())
        if 'seed' in first and 'scn' in first:
            args = [trace, first['seed'], 1] + [a for a in driver_args[2:]] + [first['scn']]
    rc, errlog = run_driver(variant, driver, args, tmp, timeout=driver_timeout)
    if rc == 66 and variant == 'tsan':
        # ThreadSanitizer's exit code: at least one data race / lock-order report on this run
        rep = [l for l in open(errlog, errors='replace').read().splitlines() if not l.startswith('(inl)')][:120]
        p = save_replay(pid, 'tsan_report.txt', rep)
        violations.append({'replay': p, 'why': 'ThreadSanitizer reported a data race or deadlock in the real code: ' + ' | '.join(x.strip() for x in rep[:4])[:300]})
    elif rc != 0:
        for t in ths:
            t.join()
        raise Infra('%s exited with %s: %s' % (driver, rc, open(errlog, errors='replace').read()[-1500:]))
    # further runs of the same driver in other build variants; their executions are appended to the trace
    for i, (xvariant, xargs) in enumerate(() if replay else extra_runs):
        build(xvariant, [driver])
        xtrace = os.path.join(tmp, '%s.%d.ndjson' % (driver, i))
        xrc, xerr = run_driver(xvariant, driver, [xtrace] + list(xargs), tmp, timeout=driver_timeout)
        if xrc != 0:
            for t in ths:
                t.join()
            raise Infra('%s (%s) exited with %s: %s' % (driver, xvariant, xrc, open(xerr, errors='replace').read()[-1500:]))
        with open(trace, 'a') as f:
            f.write(open(xtrace).read())
    val = validate_trace(trace_module, trace_cfg, trace, tmp, timeout=1500)
    for t in ths:
        t.join()
    if errs:
        raise errs[0]
    if not mc_res['ok']:
        p = save_replay(pid, 'model_counterexample.txt', mc_res['out'].splitlines()[-200:])
        violations.append({'replay': p, 'why': 'stage S: the specification violates %s (TLC counterexample saved)' % mc_res['violated']})
    if wit:
        missing = [w for w in wit[1] if w not in wit_res.get('seen', set())]
        if missing:
            raise Infra('vacuity guard: witnesses never reached in %s: %s' % (wit[0], missing))
    known = []
    for i, rej in enumerate(val['rejections']):
        seg = rej.pop('segment')
        k = known_filter(rej, seg) if known_filter else None
        if k:
            known.append(k)
            continue
        p = save_replay(pid, 'rejected_%d.ndjson' % i, seg)
        why = ('invariant %s violated at' % rej['invariant']) if rej['invariant'] else 'no specification step matches'
        violations.append({'replay': p, 'why': 'stage B: %s event %d of the execution: %s (after %s)' % (
            why, rej['line_in_execution'], rej['first_unmatched'][:300], rej['last_matched'][:200])})
    lines = open(trace).read().splitlines()
    keep = [l for l in lines if re.match(sample_re, l)][:10]
    cov = {'states': mc_res['distinct'] + wit_res.get('states', 0) + val['states'], 'transitions': mc_res['states'],
           'traces_validated_against_impl': val['accepted'],
           'samples': [{'events_of_one_execution': [json.loads(x) for x in keep]}],
           'mc_configs': mc_cfgs + ([wit[0]] if wit else []) + [trace_cfg], 'mc_distinct_states': mc_res['distinct'],
           'mc_exhaustive_within_constants': bool(mc_res.get('completed')),
           'witnesses_reached': sorted(wit_res.get('seen', [])),
           'trace_executions': val['executions'], 'trace_events': val['lines'], 'trace_rejections': len(val['rejections']),
           'trace_executions_skipped_search_limit': val.get('skipped_search_limit', 0),
           'build_variant': variant, 'exhaustive': False}
    if extra_cov:
        cov.update(extra_cov(lines))
    if post:
        # findings measured on the whole run: reported as KNOWN-FINDING only if listed in known_findings.txt
        for k in post(cov):
            key = k.split()[0]
            if any(x.startswith('known:') and ('property=%s ' % pid) in x and key in x for x in known_findings_text()):
                known.append(k)
            else:
                p = save_replay(pid, 'measured_finding.txt', [k])
                violations.append({'replay': p, 'why': k})
    write_evidence(pid, tier, 'model_checking', cov, time.time() - t0, len(violations), assume)
    finish(pid, violations, sorted(set(known)))
