"""C01 C03 C04 C07 C17: the kill path.  Stage S: TLC on MC_KillAction (per-property constants and a
one-worker witness run).  Stage B: the five real kill plugins (and systemd_restart for C04) are run
by kill_driver on a simulated cgroup tree with kill(2)/xattr/write/syscall interposed at the libc
boundary; the recorded traces are validated against KillAction_Trace with all invariants."""
import json, os, re, threading, time
import vlib

P = {
    'C01': dict(profile='c01', n=dict(quick=300, thorough=3000), wit=['Expanded', 'FellBackAfterFailure', 'KernelKill', 'Reaped']),
    'C03': dict(profile='c03', n=dict(quick=300, thorough=3000), wit=['Expanded', 'SkippedUnpopulated', 'FellBackAfterFailure', 'PreferBeatsBiggerAvoid']),
    'C04': dict(profile='c04', n=dict(quick=300, thorough=3000), wit=['DryStops', 'KernelKill', 'Reaped']),
    'C07': dict(profile='c07', n=dict(quick=300, thorough=3000), wit=['HookOutstanding', 'HookTimedOut', 'VictimGoneDuringHook', 'SecondVictimFiresAgain']),
    'C17': dict(profile='c17', n=dict(quick=300, thorough=3000), wit=['AlwaysContinueAfterKill', 'FellBackAfterFailure', 'DryStops', 'KernelKill']),
}
ASSUME = [
    'cgroups, pids and kernel behaviour (cgroup.kill, pids.current, process exit after SIGKILL) are simulated by the harness; signals never leave the process',
    'ranking keys are abstract in KillAction.tla: the driver renders each key into the statistic the configured plugin ranks by (what the plugins compute from statistics is C09)',
    'within a run cgroup files change only by processes exiting: cgroup.procs shrinks as pids die, and a cgroup may empty completely (KEmpty: cgroup.events / pids.current / cgroup.procs) right before one of the plugin\'s opens, never between the kernelkill\'s look at cgroup.events and its write of cgroup.kill; a child cgroup that is no candidate yet may be removed right when oomd is about to open it through its parent (KGone), before anything was attempted in that tick; other removals inside a tick are C10',
    'stage S is exhaustive only within the constants of the .cfg files named in coverage.mc_configs',
]


def run(pid, tier, tmp, replay):
    t0 = time.time()
    cfg = P[pid]
    vlib.build('plain', ['kill_driver'])
    violations = []
    mc_res, wit_res, errs = {}, {}, []

    def stage_s():
        try:
            mc_res.update(vlib.tlc_mc('MC_KillAction.tla', 'MC_%s_%s.cfg' % (pid, tier), tmp, workers=10,
                                      timeout=1500 if tier == 'thorough' else 400))
        except Exception as e:  # noqa
            errs.append(e)

    def stage_w():
        try:
            r = vlib.tlc_mc('MC_KillAction.tla', 'MC_wit_kill.cfg', tmp, workers=1, timeout=600)
            m = re.search(r'"WITNESSES",\s*\{([^}]*)\}', r['out'])
            seen = set(re.findall(r'"(\w+)"', m.group(1))) if m else set()
            # a cgroup emptying in the middle of a run (MCEmpty): a small separate witness run
            r2 = vlib.tlc_mc('MC_KillAction.tla', 'MC_wit_kill_mid.cfg', tmp, workers=1, timeout=300)
            m2 = re.search(r'"WITNESSES",\s*\{([^}]*)\}', r2['out'])
            seen |= set(re.findall(r'"(\w+)"', m2.group(1))) if m2 else set()
            wit_res.update(seen=seen, states=r['distinct'] + r2['distinct'])
        except Exception as e:  # noqa
            errs.append(e)

    ths = [threading.Thread(target=stage_s), threading.Thread(target=stage_w)]
    for t in ths:
        t.start()

    n = cfg['n'][tier]
    trace = os.path.join(tmp, 'kill.ndjson')
    args = [trace, vlib.seed(), n, cfg['profile']]
    if replay:
        first = json.loads(open(replay).readline())
        if first.get('e') == 'KReset':
            args = [trace, first['seed'], 1, first['profile'], first['scn']]
        else:
            args = [trace, vlib.seed(), 0, 'c04']
    rc, errlog = vlib.run_driver('plain', 'kill_driver', args, tmp, timeout=1200)
    if rc != 0:
        raise vlib.Infra('kill_driver exited with %s: %s' % (rc, open(errlog, errors='replace').read()[-1500:]))
    val = vlib.validate_trace('KillAction_Trace.tla', 'KillAction_Trace.cfg', trace, tmp, timeout=3000)
    for t in ths:
        t.join()
    if errs:
        raise errs[0]
    if not mc_res['ok']:
        p = vlib.save_replay(pid, 'model_counterexample.txt', mc_res['out'].splitlines()[-200:])
        violations.append({'replay': p, 'why': 'stage S: the kill-path design violates %s' % mc_res['violated']})
    missing = [w for w in cfg['wit'] + ['AttemptOnJustEmptied', 'KernelKillSeesEmptied'] if w not in wit_res.get('seen', set())]
    if missing:
        raise vlib.Infra('vacuity guard: witnesses never reached in MC_wit_kill.cfg: %s' % missing)
    for i, rej in enumerate(val['rejections']):
        seg = rej.pop('segment')
        p = vlib.save_replay(pid, 'rejected_%d.ndjson' % i, seg)
        why = ('invariant %s violated at' % rej['invariant']) if rej['invariant'] else 'no specification step matches'
        violations.append({'replay': p, 'why': 'stage B: %s event %d of the execution: %s (after %s)' % (
            why, rej['line_in_execution'], rej['first_unmatched'][:300], rej['last_matched'][:200])})
    lines = open(trace).read().splitlines()
    n_empty = sum(1 for l in lines if l.startswith('{"e":"KEmpty"'))
    if not replay and n_empty == 0:
        raise vlib.Infra('vacuity guard: no cgroup emptied in the middle of a run in %d executions' % val['executions'])
    keep = [l for l in lines if re.match(r'\{"e":"(KRun|X|ProcsOpen|Kill|Reap|Kmsg|KRet|HookFire|HookPoll|CtlWrite)"', l)][:14]
    cov = {
        'states': mc_res['distinct'] + wit_res['states'] + val['states'],
        'transitions': mc_res['states'],
        'traces_validated_against_impl': val['accepted'],
        'samples': [{'events_of_one_execution': [json.loads(x) for x in keep]}],
        'mc_configs': ['MC_%s_%s.cfg' % (pid, tier), 'MC_wit_kill.cfg', 'MC_wit_kill_mid.cfg', 'KillAction_Trace.cfg'],
        'mid_run_emptied_events': n_empty, 'mid_tick_removed_children': sum(1 for l in lines if l.startswith('{"e":"KGone"')),
        'mc_distinct_states': mc_res['distinct'],
        'mc_exhaustive_within_constants': bool(mc_res.get('completed')),
        'witnesses_reached': sorted(wit_res['seen']),
        'trace_executions': val['executions'], 'trace_events': val['lines'], 'trace_executions_skipped_search_limit': val.get('skipped_search_limit', 0),
        'trace_rejections': len(val['rejections']),
        'kill_events': sum(1 for l in lines if l.startswith('{"e":"Kill"')),
        'driver_profile': cfg['profile'], 'exhaustive': False,
    }
    vlib.write_evidence(pid, tier, 'model_checking', cov, time.time() - t0, len(violations), ASSUME)
    vlib.finish(pid, violations, [])
