#!/bin/bash
# usage: tools/matrix.sh [--alt] [seed dirs...]  - run every seeded change against the quick check of its own property;
# one line per seed in seeded/MATRIX.txt (caught = the check exits 1 with a VIOLATION line).  --alt: on the clone
# (tools/mutant_alt.sh) instead of /repo itself.
cd /verif
tool=tools/mutant.sh
if [ "$1" = "--alt" ]; then tool=tools/mutant_alt.sh; shift; fi
out=seeded/MATRIX.txt
[ $# -eq 0 ] && set -- seeded/C*-*/
: > $out.new
for d in "$@"; do
  d=${d%/}; id=$(basename $d); prop=${id%-*}
  res=$($tool $d/patch.diff $prop 2>&1 | tail -1 | sed 's#replay=[^ ]*##g' | cut -c1-90)
  echo "$id $res" | tee -a $out.new
done
sort -u $out.new > $out; rm -f $out.new
