#!/bin/bash
# usage: tools/matrix.sh [seed dirs...]  - run every seeded change against the quick check of its own property;
# one line per seed in seeded/MATRIX.txt (caught = the check exits 1 with a VIOLATION line).
cd /verif
out=seeded/MATRIX.txt
[ $# -eq 0 ] && set -- seeded/C*-*/
for d in "$@"; do
  d=${d%/}; id=$(basename $d); prop=${id%-*}
  res=$(tools/mutant.sh $d/patch.diff $prop 2>&1 | tail -1)
  echo "$id $res" | tee -a $out.new
done
sort -u $out.new > $out; rm -f $out.new
