"""C19: stats service.  Stage S: TLC on MC_StatsService (operations as call / linearisation / return, handler
accounting, shutdown completes under fairness).  Stage B: the real Stats service under ThreadSanitizer with
concurrent API threads and socket clients (TLC searches a linearisation of the recorded call/return history),
raw clients sending every kind of request and stalling / half-closing / resetting, shutdown with clients in every
phase; socket paths around sizeof(sun_path) under AddressSanitizer."""
import vlib

ASSUME = ['the call and return events of an operation are emitted by the calling thread immediately before and after the real call, so the real linearisation point lies between them; TLC searches it',
          'hook points (OOMD_VERIF) for handler start/end are emitted under thread_mutex_, destructor begin/end on the destroying thread',
          'interleavings are those the scheduler produces with 2-4 API threads, 2 StatsClient threads and ~30-60 concurrent raw clients per scenario; data races are observed only through ThreadSanitizer on those schedules',
          'a client that stalls is one that sends nothing (or an unterminated short request) for longer than the 2 s receive timeout of the server']


def run(pid, tier, tmp, replay):
    n = 20 if tier == 'quick' else 400
    npath = 1 if tier == 'quick' else 6
    vlib.trace_family_check(pid, tier, tmp, replay, variant='tsan', driver='statsvc_driver', driver_args=[vlib.seed(), n, 'mix'],
                            extra_runs=[('asan', [vlib.seed(), npath, 'mix', 100000])],
                            trace_module='StatsService_Trace.tla', trace_cfg='StatsService_Trace.cfg',
                            mc_module='MC_StatsService.tla', mc_cfg='MC_C19_%s.cfg' % tier, assume=ASSUME,
                            sample_re=r'\{"e":"(Call|Ret|ClientSaw|HStart|HEnd|DtorBegin|DtorEnd|InitResult)"', mc_workers=8,
                            extra_cov=lambda lines: {'operations': sum(1 for l in lines if l.startswith('{"e":"Call"')),
                                                     'client_sessions': sum(1 for l in lines if l.startswith('{"e":"ClientSaw"')),
                                                     'init_results': sum(1 for l in lines if l.startswith('{"e":"InitResult"'))})
