#!/bin/sh
# usage: tools/mutant.sh <patch.diff> <property id>...   - apply a seeded change to /repo, run the
# quick checks, undo it straight afterwards.  Prints one line per check: <id> exit=<code>.
patch="$(readlink -f "$1")"; shift
cd /repo || exit 2
if ! git diff --quiet; then echo "/repo has uncommitted changes"; exit 2; fi
if git apply --check "$patch" 2>/dev/null; then git apply "$patch"; elif git apply -3 "$patch" 2>/dev/null; then git reset -q; else git reset -q; git checkout -- .; echo "patch does not apply: $patch"; exit 3; fi
for id in "$@"; do
  out=$(cd /verif && tools/check "$id" --tier quick 2>&1); rc=$?
  echo "$id exit=$rc $(echo "$out" | grep -E '^VIOLATION|^ERROR' | head -2 | tr '\n' ' ')"
done
git checkout -- . ; git status --short | grep -v '^??' | head -3
