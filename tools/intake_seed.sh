#!/bin/bash
# usage: tools/intake_seed.sh <PROP> <src dir with patch.diff, demo, meta.json> <k>   - store as seeded/<PROP>-<k>,
# confirm in a scratch worktree, run the property's quick check against it; prints one summary line
prop=$1; src=$2; k=$3; dst=/verif/seeded/$prop-$k
rm -rf $dst; mkdir -p $dst; cp -r $src/. $dst/
conf=$(/verif/tools/confirm_seed.sh $dst 2>&1 | tr '\n' ' ')
res=$(/verif/tools/mutant.sh $dst/patch.diff $prop 2>&1 | tail -1 | cut -c1-60)
echo "$prop-$k | $conf | $res"
