"""C16: path algebra and pattern matching.  Stage S: TLC checks the algebraic laws on every string
over the alphabet up to the configured length (one state per case).  Stage B: the same enumeration,
written out by TLC with the specification's results, is replayed on the real CgroupPath API."""
import json, os, time
import vlib

ASSUME = ['alphabet {a,b,/,*,?,.}: glob bracket/brace syntax is outside the enumerated domain',
          'patterns with "." or ".." as a whole component are excluded from resolution cases (aliases of directories)',
          'directory trees for resolution are the three fixed trees of MC_CgroupPath.tla (files matching the pattern, dot directories, empty tree)']


def run(pid, tier, tmp, replay):
    t0 = time.time()
    vlib.build('plain', ['path_replay'])
    cases = os.path.join(tmp, 'cases.ndjson')
    os.environ['CASES'] = cases
    mc = vlib.tlc_mc('MC_CgroupPath.tla', 'MC_C16_%s.cfg' % tier, tmp, workers=8, timeout=1500)
    violations, known = [], []
    if not mc['ok']:
        p = vlib.save_replay(pid, 'model_counterexample.txt', mc['out'].splitlines()[-120:])
        violations.append({'replay': p, 'why': 'stage S: a law of the path algebra fails in the specification: %s' % mc['violated']})
    if replay:
        cases = replay
    res_file = os.path.join(tmp, 'res.json')
    rc, errlog = vlib.run_driver('plain', 'path_replay', [cases, res_file], tmp, timeout=900)
    if rc != 0 or not os.path.exists(res_file):
        raise vlib.Infra('path_replay failed (%s): %s' % (rc, open(errlog, errors='replace').read()[-1500:]))
    res = json.load(open(res_file))
    if res['mismatches']:
        ex = res['examples']
        p = vlib.save_replay(pid, 'mismatching_cases.ndjson', [json.dumps(e['case']) for e in ex])
        violations.append({'replay': p, 'why': 'stage B: %d cases where the real CgroupPath API differs from the specification, e.g. %s on %s'
                           % (res['mismatches'], ex[0]['what'], json.dumps(ex[0]['case'])[:300])})
    if res['glob_dot_entries']:
        listed = [k for k in vlib.known_findings_text() if 'property=C16' in k and 'key=glob-dot-entries' in k and k.startswith('known:')]
        if listed:
            known.append('key=glob-dot-entries %d resolution cases return the "." / ".." directory entries (e.g. %s)'
                         % (res['glob_dot_entries'], json.dumps(res['glob_dot_example'])[:200]))
        else:
            p = vlib.save_replay(pid, 'glob_dot_entries.ndjson', [json.dumps(res['glob_dot_example'])])
            violations.append({'replay': p, 'why': 'resolveWildcard returns "." / ".." entries'})
    sample = [json.loads(l) for l in open(cases).read().splitlines()[:3]]
    cov = {'states': mc['distinct'], 'transitions': mc['states'],
           'traces_validated_against_impl': res['cases'] - res['mismatches'],
           'samples': sample, 'cases_unary': res['unary'], 'cases_hook_pairs': res['hook'], 'cases_hook_objects': res.get('hook_objects', 0), 'cases_glob': res['glob'],
           'known_finding_cases': res['glob_dot_entries'],
           'mc_configs': ['MC_C16_%s.cfg' % tier], 'exhaustive': True,
           'mc_exhaustive_within_constants': bool(mc.get('completed'))}
    vlib.write_evidence(pid, tier, 'model_checking', cov, time.time() - t0, len(violations), ASSUME)
    vlib.finish(pid, violations, known)
