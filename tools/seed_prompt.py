#!/usr/bin/env python3
"""Print the prompt handed to an independent sub-agent that seeds a property-breaking change.
Only the property text and a scratch worktree path are given - nothing from /verif."""
import json, sys
pid, wt = sys.argv[1], sys.argv[2]
n = sys.argv[3] if len(sys.argv) > 3 else "2"
# optional 4th argument: a focus hint built from the property's own anchors / a defect category (round 2)
focus = sys.argv[4] if len(sys.argv) > 4 else ""
p = next(json.loads(l) for l in open('/verif/properties.jsonl') if json.loads(l)['id'] == pid)
print(f"""You are helping to evaluate a verification framework for oomd (facebookincubator/oomd, a userspace Linux OOM killer written in C++). Your job is to write {n} independent, realistic source changes ("seeded defects") to oomd that each BREAK the behavioural property below while the project still compiles and its existing unit-test suite still passes.

Work ONLY inside your own scratch git worktree of the repository: {wt}
(do not touch /repo, /verif or any other directory; do not read anything under /verif). There is no network.

PROPERTY {p['id']}: {p['title']}
{p['statement']}
Scope (what it is quantified over): {p['quantifier']['text']}

{("Focus for this round (other rounds cover other parts): " + focus) if focus else ""}
Requirements for each change:
 * It is a small, plausible edit of the non-test sources under src/oomd (the kind of slip a maintainer could make in a refactor or "optimisation"): not a deliberately absurd sabotage, no edits to tests, no new files needed in the product.
 * The project still builds and ALL existing tests still pass with it:
       cd {wt} && meson setup _build >/dev/null && ninja -C _build && meson test -C _build
   (run this; 234 test cases in 13 executables must pass; read the source and the tests so that you pick something the tests do not pin down).
 * It needs something specific to manifest: a particular interleaving, a fault or crash at a particular point, a multi-step sequence of operations, an unusual input or configuration, or two cooperating sites that each look fine alone. Ordinary, everyday use should NOT expose it at once.
 * It genuinely violates the property as stated (explain how in one paragraph).
 * You must write a demonstration: a small stand-alone C++ program (or gtest file) that links against the built library (_build/liboomd.a, plus -ljsoncpp -lsystemd -lpthread; use -I{wt}/src -std=c++20; gtest/gmock are installed; the test fixtures/helpers in src/oomd/util/Fixture.h and TestHelper.h may be used) which FAILS (non-zero exit or failed assertion) when built against the changed tree and PASSES when built against the unchanged tree. Actually run it both ways (apply the change with `git apply`, remove it with `git apply -R`; NEVER use `git stash`, the stash is shared between worktrees) and report the outputs.
 * The {n} changes should be different in kind from each other (different code sites / mechanisms).

Deliverables - create, for k = 1..{n}, the directory {wt}/seed_out/k/ containing:
   patch.diff   (git diff of the change against the worktree's HEAD, applies with `git apply` from the repository root; must contain ONLY the product change, not the demonstration)
   demo.cpp     (the demonstration) and run_demo.sh (a script taking the repository root as $1 that builds the library there if needed, builds and runs the demo, exits non-zero on failure)
   meta.json    ({{"property": "{p['id']}", "summary": "...", "needs_to_manifest": "...", "how_it_violates": "...", "commands_run": ["..."], "tests_pass_with_change": true, "demo_fails_with_change": true, "demo_passes_without_change": true}})
When finished, leave the worktree's tracked files UNCHANGED (git checkout -- . ; the seed_out directory is untracked and stays) and remove the _build directory. Reply with a short summary of each change (file, what, why it breaks the property, what it needs to manifest) and the observed demo outputs. If a demonstration cannot be made to pass on the unchanged tree because the unchanged code already violates the property in that situation, pick a different change.""")
