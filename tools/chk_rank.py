"""C09: ranking policies.  Stage S: TLC checks laws of the policy operators of Ranking.tla on every
sibling set of the enumerated domain.  Stage B: the first cgroup each real kill plugin attempts on a
simulated cgroupfs must be among the maximisers the specification allows for the same statistics."""
import vlib

ASSUME = ['sizes are small integers x a scale factor (4 KiB .. 4 GiB+4 KiB per unit; SwapTotal 6.25 GiB, above 2^32); policies are homogeneous in sizes so the specification works in units',
          'growth exactly on min_growth_ratio is avoided by the generator (float rounding band); ties are free (ArgMax returns a set)',
          'the moving average before the deciding tick is usage1 * 7/16 (two warm-up ticks at constant usage, decay 4)',
          'family 8 (percent threshold boundary) reports swap usage relative to floor(total*pct/100) bytes']


def run(pid, tier, tmp, replay):
    n = 1800 if tier == 'quick' else 30000
    vlib.trace_family_check(pid, tier, tmp, replay, variant='plain', driver='rank_driver', driver_args=[vlib.seed(), n],
                            trace_module='Ranking_Trace.tla', trace_cfg='Ranking_Trace.cfg',
                            mc_module='MC_Ranking.tla', mc_cfg='MC_C09_%s.cfg' % tier, assume=ASSUME,
                            sample_re=r'\{"e":"RankCase"', mc_workers=8)
