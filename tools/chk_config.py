"""C12: configuration rejected cleanly or honoured exactly.  Stage S: TLC checks the laws of the
decision model (Config.tla) on every enumerated case.  Stage B: the TLC-generated cases (with the
model's verdicts) are replayed on the real JsonConfigParser, ConfigCompiler, PluginArgParser and
Util::parseSize; the real `oomd --check-config` binary is run on malformed documents."""
import json, os, subprocess, time
import vlib

ASSUME = ['the exact 64-bit value of an accepted size string is computed by the replay driver (128-bit integer arithmetic) from the component structure given by the model: TLC integers are 32-bit',
          'signed numbers for unsigned arguments written "-0", numbers with a leading "+" or blank, ".5"/"5." and exponent notation for floating point arguments are treated as unspecified by the documentation',
          'arbitrary malformed byte strings are only sampled (truncations of a valid document) through the real oomd binary',
          'IR-level cases use scripted plugins; the real core plugins are reached through the number/size cases and the binary runs']

DOC = '{"rulesets":[{"name":"r","detectors":[["g",{"name":"exists","args":{"cgroup":"a"}}]],"actions":[{"name":"continue","args":{}}]}]}'


def binary_cases(tmp):
    """documents for the real binary: (text, expected exit in {0,1})"""
    cs = [(DOC, 0)]
    for k in range(1, len(DOC), 7):
        cs.append((DOC[:k], 1))
    cs += [(DOC.replace('"name":"r"', '"name":"r","post_action_delay":"abc"'), 1),
           (DOC.replace('"name":"r"', '"name":"r","prekill_hook_timeout":"99999999999"'), 1),
           (DOC.replace('"name":"r"', '"name":"r","post_action_delay":"3"'), 0),
           (DOC.replace('"name":"r"', '"name":[1,2]'), 1),
           (DOC.replace('"exists"', '"no_such_plugin"'), 1),
           (DOC.replace('{"cgroup":"a"}', '{"cgroup":"a","bogus":"1"}'), 1),
           ('[1,2,3]', 1), ('"text"', 1), ('', 1)]
    return cs


def run(pid, tier, tmp, replay):
    t0 = time.time()
    vlib.build('plain', ['config_replay'])
    r = subprocess.run(['ninja', '-C', os.path.join(vlib.BUILD, 'plain'), 'oomd'], stdout=subprocess.PIPE, stderr=subprocess.STDOUT, text=True)
    if r.returncode != 0:
        raise vlib.Infra('build of the oomd binary failed: ' + r.stdout[-2000:])
    cases = os.path.join(tmp, 'cases.ndjson')
    os.environ['CASES'] = cases
    mc = vlib.tlc_mc('MC_Config.tla', 'MC_C12_%s.cfg' % tier, tmp, workers=8, timeout=1500)
    violations, known = [], []
    if not mc['ok']:
        p = vlib.save_replay(pid, 'model_counterexample.txt', mc['out'].splitlines()[-120:])
        violations.append({'replay': p, 'why': 'stage S: a law of the decision model fails: %s' % mc['violated']})
    rank_replay = bool(replay) and '"RankCase"' in open(replay).read(4000)
    eng_replay0 = bool(replay) and open(replay).readline().startswith('{"e":"Reset"')
    det_replay = bool(replay) and not rank_replay and open(replay).readline().startswith('{"e":"SReset"')
    if replay and replay.endswith('.ndjson') and not det_replay and not rank_replay and not eng_replay0:
        cases = replay
    res_file = os.path.join(tmp, 'res.json')
    rc, errlog = vlib.run_driver('plain', 'config_replay', [cases, res_file], tmp, timeout=900)
    if rc != 0 or not os.path.exists(res_file):
        p = vlib.save_replay(pid, 'replay_crashed.txt', open(errlog, errors='replace').read().splitlines()[-60:])
        violations.append({'replay': p, 'why': 'stage B: config_replay died (%s) while loading a generated configuration - a crash is never an error result' % rc})
        res = {'cases': 0, 'agree': 0, 'mismatches': 0, 'examples': [], 'lenient': []}
    else:
        res = json.load(open(res_file))
    if res['mismatches']:
        ex = res['examples']
        p = vlib.save_replay(pid, 'mismatching_cases.ndjson', [json.dumps(e['case']) for e in ex])
        violations.append({'replay': p, 'why': 'stage B: %d cases differ from the decision model, e.g. %s' % (res['mismatches'], ex[0]['what'][:300])})
    listed = {k.split('key=')[1].split()[0] for k in vlib.known_findings_text() if k.startswith('known:') and 'property=C12' in k and 'key=' in k}
    for l in res['lenient']:
        if l['key'] in listed:
            known.append('key=%s %d cases, e.g. %s' % (l['key'], l['count'], l['example'][:120]))
        else:
            p = vlib.save_replay(pid, 'lenient_%s.txt' % l['key'].replace(':', '_').replace('=', '_'), [l['example']])
            violations.append({'replay': p, 'why': 'stage B: %d cases accepted although the model rejects them (class %s), e.g. %s' % (l['count'], l['key'], l['example'][:200])})
    # arguments that interact ("when both threshold and threshold_anon are specified, only threshold_anon is effective";
    # thresholds spelled as M / K / % / bare megabytes): the detectors configured that way must behave as the
    # specification of the detectors says for the value the documentation assigns (det_driver + Detectors_Trace)
    vlib.build('plain', ['det_driver'])
    dtrace = os.path.join(tmp, 'det.ndjson')
    dargs = [dtrace, vlib.seed(), 210 if tier == 'quick' else 2100]
    if det_replay:
        first = json.loads(open(replay).readline())
        dargs = [dtrace, first['seed'], 1, first['scn']]
    drc, derr = vlib.run_driver('plain', 'det_driver', dargs, tmp, timeout=900)
    if drc != 0:
        raise vlib.Infra('det_driver exited with %s' % drc)
    dval = vlib.validate_trace('Detectors_Trace.tla', 'Detectors_Trace.cfg', dtrace, tmp)
    for i, rej in enumerate(dval['rejections']):
        seg = rej.pop('segment')
        p = vlib.save_replay(pid, 'rejected_detector_%d.ndjson' % i, seg)
        violations.append({'replay': p, 'why': 'stage B (configured detector): event %d of the execution: %s' % (rej['line_in_execution'], rej['first_unmatched'][:300])})
    # percentages of a system total (kill_by_swap_usage threshold N% of SwapTotal) are evaluated when the plugin is
    # loaded: every load in one process must use the meminfo of ITS load (rank_driver rewrites one location per
    # scenario) - validated through the first-victim rule of Ranking_Trace
    vlib.build('plain', ['rank_driver'])
    rtrace = os.path.join(tmp, 'rank.ndjson')
    rargs = [rtrace, vlib.seed(), 270 if tier == 'quick' else 2700]
    if rank_replay:
        first = json.loads(open(replay).readline())
        rargs = [rtrace, first['seed'], 1, first['scn']]
    rrc, rerr = vlib.run_driver('plain', 'rank_driver', rargs, tmp, timeout=900)
    if rrc != 0:
        raise vlib.Infra('rank_driver exited with %s' % rrc)
    rval = vlib.validate_trace('Ranking_Trace.tla', 'Ranking_Trace.cfg', rtrace, tmp)
    for i, rej in enumerate(rval['rejections']):
        seg = rej.pop('segment')
        p = vlib.save_replay(pid, 'rejected_threshold_%d.ndjson' % i, seg)
        violations.append({'replay': p, 'why': 'stage B (configured threshold): event %d of the execution: %s' % (rej['line_in_execution'], rej['first_unmatched'][:300])})
    # arguments of plugins that are RE-CREATED after the configuration was accepted (one set of objects per cgroup
    # matching a ruleset-level "cgroup"): every re-created object must be given the arguments as configured - an action's
    # own "cgroup" argument is kept, only an action without one receives the matched cgroup (engine_driver + Engine_Trace)
    eng_replay = bool(replay) and open(replay).readline().startswith('{"e":"Reset"')
    vlib.build('plain', ['engine_driver'])
    etrace = os.path.join(tmp, 'engine.ndjson')
    eargs = [etrace, vlib.seed(), 80 if tier == 'quick' else 1500, 'c11']
    if eng_replay:
        first = json.loads(open(replay).readline())
        eargs = [etrace, first['seed'], 1, first['profile'], first['scn']]
    erc, eerr = vlib.run_driver('plain', 'engine_driver', eargs, tmp, timeout=900)
    if erc != 0:
        raise vlib.Infra('engine_driver exited with %s' % erc)
    evalr = vlib.validate_trace('Engine_Trace.tla', 'Engine_Trace.cfg', etrace, tmp, timeout=3000)
    for i, rej in enumerate(evalr['rejections']):
        seg = rej.pop('segment')
        p = vlib.save_replay(pid, 'rejected_engine_%d.ndjson' % i, seg)
        violations.append({'replay': p, 'why': 'stage B (re-created plugin objects): event %d of the execution: %s (after %s)' % (rej['line_in_execution'], rej['first_unmatched'][:300], rej['last_matched'][:200])})
    # the real binary on malformed / invalid documents: exit status must be 0 or 1, never a signal
    exe = os.path.join(vlib.BUILD, 'plain', 'oomd')
    nbin, badbin = 0, []
    for i, (text, want) in enumerate(binary_cases(tmp)):
        f = os.path.join(tmp, 'doc%d.json' % i)
        open(f, 'w').write(text)
        r = subprocess.run([exe, '--check-config', f, '--kmsg-override', os.path.join(tmp, 'kmsg')],
                           stdout=subprocess.DEVNULL, stderr=subprocess.DEVNULL, timeout=60)
        nbin += 1
        if r.returncode != want:
            badbin.append((text, r.returncode, want))
    if badbin:
        p = vlib.save_replay(pid, 'binary_case.json', [badbin[0][0]])
        violations.append({'replay': p, 'why': 'oomd --check-config exited with %s (expected %s) on %r (%d such documents)' % (badbin[0][1], badbin[0][2], badbin[0][0][:120], len(badbin))})
    sample = [json.loads(l) for l in open(cases).read().splitlines()[:3]] if os.path.exists(cases) else [{}]
    cov = {'states': mc['distinct'], 'transitions': mc['states'],
           'traces_validated_against_impl': res['agree'], 'samples': sample,
           'cases': res['cases'], 'cases_in_catalogued_leniency_classes': sum(l['count'] for l in res['lenient']),
           'binary_documents': nbin, 'configured_detector_executions': dval['executions'], 'configured_threshold_executions': rval['executions'], 'recreated_plugin_executions': evalr['executions'], 'mc_configs': ['MC_C12_%s.cfg' % tier], 'exhaustive': True,
           'mc_exhaustive_within_constants': bool(mc.get('completed'))}
    vlib.write_evidence(pid, tier, 'model_checking', cov, time.time() - t0, len(violations), ASSUME)
    vlib.finish(pid, violations, known)
