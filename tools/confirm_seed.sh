#!/bin/sh
# usage: tools/confirm_seed.sh <seeded/ID-k>  - confirm a seeded change in a scratch worktree of /repo HEAD:
# builds, the existing tests pass with the change, the demonstration passes without and fails with it.
d="$(cd "$1" && pwd)"; id="$(basename "$d")"
wt="/tmp/confirm/$id"; rm -rf "$wt"; mkdir -p /tmp/confirm
git -C /repo worktree add -q --detach "$wt" HEAD || exit 2
res="$d/confirm.txt"; : > "$res"
(
cd "$wt"
meson setup _build >/dev/null 2>&1 && ninja -C _build >/dev/null 2>&1 || { echo "base build failed" >> "$res"; exit 0; }
bash "$d/run_demo.sh" "$wt" > "$d/demo_without.out" 2>&1; echo "demo_without_change_exit=$?" >> "$res"
if git apply --check "$d/patch.diff" 2>/dev/null; then git apply "$d/patch.diff"; else echo "patch does not apply" >> "$res"; exit 0; fi
ninja -C _build >/dev/null 2>&1; echo "build_with_change_exit=$?" >> "$res"
meson test -C _build --no-rebuild > "$d/tests_with.out" 2>&1; echo "tests_with_change_exit=$?" >> "$res"
grep -E "^Ok:|^Fail:" "$d/tests_with.out" | tr -s ' ' | tr '\n' ' ' >> "$res"; echo >> "$res"
bash "$d/run_demo.sh" "$wt" > "$d/demo_with.out" 2>&1; echo "demo_with_change_exit=$?" >> "$res"
)
git -C /repo worktree remove --force "$wt"
cat "$res"
