#!/usr/bin/env python3
"""Binding self-test: does a trace specification actually constrain what the driver records?

For a family: record a few executions of the real code, check they are accepted, then corrupt ONE thing
per trial (a numeric field +-1, a boolean flipped, a string replaced, a line dropped, two neighbouring
lines swapped) in ONE execution and count how often the trace specification rejects the result.
Fields that are never detected are listed: they are either informational (seed, scenario number, raw
masks, free-text kinds) or a hole in the binding.  Not a registered check (it says nothing about oomd);
results go to selftest/<family>.json and DESIGN.md section F2.

usage: tools/selftest.py <family> [trials]      families: see FAMILIES below
"""
import json, os, random, shutil, sys
sys.path.insert(0, os.path.dirname(os.path.abspath(__file__)))
import vlib

# family -> (variant, driver, driver args after <trace>, trace module, trace cfg)
FAMILIES = {
    'engine': ('plain', 'engine_driver', [1, 12, 'mixed'], 'Engine_Trace.tla', 'Engine_Trace.cfg'),
    'kill': ('plain', 'kill_driver', [1, 12, 'c07'], 'KillAction_Trace.tla', 'KillAction_Trace.cfg'),
    'stats': ('plain', 'stats_driver', [1, 12], 'CgroupStats_Trace.tla', 'CgroupStats_Trace.cfg'),
    'det': ('plain', 'det_driver', [1, 20], 'Detectors_Trace.tla', 'Detectors_Trace.cfg'),
    'rank': ('plain', 'rank_driver', [1, 40], 'Ranking_Trace.tla', 'Ranking_Trace.cfg'),
    'tick': ('asan', 'tick_driver', [1, 1, 40], 'Tick_Trace.tla', 'Tick_Trace.cfg'),
    'senpai': ('plain', 'senpai_driver', [1, 12], 'Senpai_Trace.tla', 'Senpai_Trace.cfg'),
    'log': ('tsan', 'log_driver', [1, 6], 'AsyncLog_Trace.tla', 'AsyncLog_Trace.cfg'),
    'statsvc': ('tsan', 'statsvc_driver', [1, 5, 'mix'], 'StatsService_Trace.tla', 'StatsService_Trace.cfg'),
    'dropin': ('tsan', 'dropin_driver', [1, 8], 'DropInWatcher_Trace.tla', 'DropInWatcher_Trace.cfg'),
}
# what the REAL code produced (as opposed to the generated scenario): event -> top-level fields whose corruption must
# be noticed; '*' = every field.  Only these are corrupted, dropped or swapped.
OUT = {
    'det': {'DTick': ['ret']},
    'rank': {'RankCase': ['first']},
    'senpai': {'CtlWrite': ['p', 'file', 'v'], 'SwapWrite': ['*']},
    'stats': {'Q': ['r'], 'QM': ['*']},
    'engine': {'Run': ['serial', 'role', 'ctx', 'hasRs', 'applied'], 'Prerun': ['serial'], 'Init': ['serial', 'id', 'role', 'delay', 'cg'], 'Dtor': ['serial'],
               'HookFire': ['*'], 'Stat': ['*']},
    'kill': {'Kill': ['pid', 'sig'], 'KRet': ['ret'], 'KRun': ['deadline'], 'X': ['p', 'ns', 'v', 'kind'], 'HookFire': ['hook', 'pc'], 'HookPoll': ['res'],
             'HookDestroy': ['inv'], 'ProcsOpen': ['p'], 'Kmsg': ['p', 'plugin', 'dry'], 'CtlWrite': ['p', 'file', 'val'], 'KStat': ['kills'], 'Reap': ['pid']},
    'tick': {'Kill': ['pid', 'sig'], 'StatQuery': ['avail'], 'TickEnd': ['tick'], 'ProcsOpen': ['p']},
    'log': {'Accept': ['thr', 'i', 'size', 'cur'], 'Drop': ['thr', 'i'], 'Swap': ['n', 'disc'], 'Sink': ['*'], 'DropsReported': ['*'], 'Stop': ['*']},
    'statsvc': {'Ret': ['res'], 'ClientSaw': ['nReplies', 'wellFormed', 'err'], 'HStart': ['*'], 'HEnd': ['*'], 'DtorEnd': ['*'], 'InitResult': ['ok']},
    'dropin': {'Sched': ['tag', 'add', 'v'], 'Apply': ['tag', 'res'], 'Active': ['ids'], 'Swap': ['n'], 'WEvent': ['c', 'n'], 'Settle': ['dir', 'present'],
               'Reg': ['ok'], 'Dereg': ['*'], 'ScanDone': ['*']},
}
INFORMATIONAL = {'scn', 'seed', 'profile', 'mode', 'kind', 'mask', 'case', 'len', 'detail', 'why', 't'}


def leaves(obj, path=()):
    """(path, value) for every scalar in a JSON value"""
    if isinstance(obj, dict):
        for k, v in obj.items():
            yield from leaves(v, path + (k,))
    elif isinstance(obj, list):
        for i, v in enumerate(obj):
            yield from leaves(v, path + (i,))
    else:
        yield path, obj


def set_at(obj, path, val):
    for p in path[:-1]:
        obj = obj[p]
    obj[path[-1]] = val


def corrupt(lines, rng, out):
    """one corruption of something the real code produced; returns (new lines, description key)"""
    body = [i for i, l in enumerate(lines) if json.loads(l)['e'] in out]
    if not body:
        return None, None
    kind = rng.choice(['field', 'field', 'field', 'drop', 'swap'])
    i = rng.choice(body)
    ev = json.loads(lines[i])
    if kind == 'drop':
        return lines[:i] + lines[i + 1:], 'drop:' + ev['e']
    if kind == 'swap' and i + 1 < len(lines) and lines[i] != lines[i + 1] and 'Reset' not in lines[i + 1][:16]:
        return lines[:i] + [lines[i + 1], lines[i]] + lines[i + 2:], 'swap:%s/%s' % (ev['e'], json.loads(lines[i + 1])['e'])
    want = out[ev['e']]
    cands = [(p, v) for p, v in leaves(ev) if p != ('e',) and ('*' in want or p[0] in want)]
    if not cands:
        return lines[:i] + lines[i + 1:], 'drop:' + ev['e']
    p, v = rng.choice(cands)
    if isinstance(v, bool):
        nv = not v
    elif isinstance(v, (int, float)):
        nv = v + rng.choice([-1, 1]) if rng.random() < 0.5 else v * 2 + 3
    else:
        nv = str(v) + 'x' if rng.random() < 0.5 or not v else str(v)[:-1]
    set_at(ev, p, nv)
    name = '.'.join(str(x) for x in p if not isinstance(x, int))
    return lines[:i] + [json.dumps(ev, separators=(',', ':'))] + lines[i + 1:], 'field:%s.%s' % (ev['e'], name)


def main():
    fam = sys.argv[1]
    trials = int(sys.argv[2]) if len(sys.argv) > 2 else 60
    variant, driver, dargs, mod, cfg = FAMILIES[fam]
    tmp = vlib.scratch()
    try:
        vlib.build(variant, [driver])
        trace = os.path.join(tmp, 'base.ndjson')
        rc, err = vlib.run_driver(variant, driver, [trace] + dargs, tmp, timeout=600)
        if rc != 0:
            raise SystemExit('driver failed: %s' % rc)
        lines = open(trace).read().splitlines()
        segs = vlib._segments(lines)
        base = vlib.validate_trace(mod, cfg, trace, tmp)
        if base['rejections']:
            raise SystemExit('base trace is not accepted; run the check first')
        rng = random.Random(7)
        stats = {}
        for t in range(trials):
            a, b = rng.choice(segs)
            seg, what = corrupt(lines[a:b], rng, OUT[fam])
            if seg is None:
                continue
            p = os.path.join(tmp, 'c%d.ndjson' % t)
            open(p, 'w').write('\n'.join(seg) + '\n')
            r = vlib.tlc_trace_once(mod, cfg, p, tmp, timeout=300)
            s = stats.setdefault(what, [0, 0])
            s[0] += 1
            s[1] += 0 if r['accepted'] else 1
            os.unlink(p)
        tot = sum(v[0] for v in stats.values()); rej = sum(v[1] for v in stats.values())
        inf = lambda k: k.startswith('field:') and k.rsplit('.', 1)[-1] in INFORMATIONAL
        tot_b = sum(v[0] for k, v in stats.items() if not inf(k)); rej_b = sum(v[1] for k, v in stats.items() if not inf(k))
        never = sorted(k for k, v in stats.items() if v[1] == 0)
        out = {'family': fam, 'trials': tot, 'rejected': rej, 'trials_excluding_informational_fields': tot_b,
               'rejected_excluding_informational_fields': rej_b, 'never_detected': never,
               'per_corruption': {k: {'trials': v[0], 'rejected': v[1]} for k, v in sorted(stats.items())}}
        os.makedirs(os.path.join(vlib.VERIF, 'selftest'), exist_ok=True)
        json.dump(out, open(os.path.join(vlib.VERIF, 'selftest', fam + '.json'), 'w'), indent=1)
        print('%s: %d/%d corruptions rejected (%d/%d excluding informational fields); never detected: %s' % (
            fam, rej, tot, rej_b, tot_b, ', '.join(never) or '-'))
    finally:
        shutil.rmtree(tmp, ignore_errors=True)


if __name__ == '__main__':
    main()
