"""C10: robustness of a tick.  Stage S: TLC on MC_Tick (fault filter, unavailable-not-guessed, containment,
the tick always ends).  Stage B: the real main-loop body with every core plugin configured is run, in the
ASan+UBSan+_GLIBCXX_ASSERTIONS build and one forked child per fault, under every (file x {absent, empty,
unreadable, read error}) fault, without d_type, and with a cgroup removed / re-created before the k-th file
access; each execution's trace must be a behaviour of Tick_Trace (an Abort line has no action)."""
import json, os, re
import vlib

ASSUME = ['memory safety and undefined behaviour are observed only if they manifest (sanitizer report, assertion, signal, uncaught exception, watchdog) on an explored execution',
          'faults are injected at the open/openat/fopen boundary; reads of an opened file succeed except for the "readfail" kind (every read fails)',
          'stride and scenario count per tier bound which access indices k are used for removal / re-creation (quick: every 3rd, thorough: every index)']


def run(pid, tier, tmp, replay):
    nscn, stride = (1, 3) if tier == 'quick' else (4, 1)

    def extra(lines):
        kinds = {}
        for l in lines:
            if l.startswith('{"e":"SReset"'):
                k = json.loads(l)['fault']['kind']
                kinds[k] = kinds.get(k, 0) + 1
        q = [json.loads(l) for l in lines if l.startswith('{"e":"StatQuery"')]
        defaults = sorted({x['file'] for x in q if x['avail'] and x['kind'] == 'empty'})
        return {'fault_executions_by_kind': kinds, 'exhaustive': False, 'stat_queries': len(q),
                'stat_queries_unavailable': sum(1 for x in q if not x['avail']), 'empty_file_defaults': defaults}
    env_fault = None
    if replay:
        first = json.loads(open(replay).readline())
        f = first['fault']
        os.environ['VERIF_FAULT'] = '%s:%s:%d:%s:%d' % (f['kind'], f['file'] or '-', f['k'], f['cg'] or '-', f.get('variant', 0))
    vlib.trace_family_check(pid, tier, tmp, replay, variant='asan', driver='tick_driver',
                            driver_args=[vlib.seed(), nscn, stride],
                            trace_module='Tick_Trace.tla', trace_cfg='Tick_Trace.cfg',
                            mc_module='MC_Tick.tla', mc_cfg='MC_C10_%s.cfg' % tier, assume=ASSUME,
                            sample_re=r'\{"e":"(SReset|ProcsOpen|Kill|TickEnd)"', extra_cov=extra, mc_workers=4,
                            driver_timeout=3000,
                            post=lambda cov: ['key=empty-file-default:%s an EMPTY %s is answered with a default value instead of "unavailable"' % (f, f)
                                              for f in cov.get('empty_file_defaults', [])])
