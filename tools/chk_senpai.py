"""C18: Senpai.  Stage S: TLC on MC_Senpai (declarative bounds / guards of the statement vs the operational
design, with witnesses).  Stage B: every write(2) of the real senpai plugin on control files and on
swappiness is validated against Senpai_Trace."""
import vlib

ASSUME = ['sizes are multiples of 4 KiB; the specification works in pages and leaves the control law\'s multiplicative factor free (only its direction and the max_probe / max_backoff caps are fixed)',
          'matched cgroups are top-level, so effective swap free / max / utilisation are computed by the driver with the C15 formulas',
          'control-file writes may fail (EAGAIN) by scenario: the cgroup is then dropped from tracking; memory_high_timeout_ms (threaded write) is not exercised',
          'a matched cgroup may be removed in the middle of a tick, right before the k-th open of one of its files (Vanish)']
WIT = ['VanishedBeforeItsWrite', 'Probed', 'BackedOff', 'FloorAboveCeiling', 'Reclaimed', 'PokedAndReset', 'SwappinessLowered', 'RecreatedIsTrackedAfresh']


def _cov(lines, replay):
    n = sum(1 for l in lines if l.startswith('{"e":"Vanish"'))
    if not replay and n == 0:
        raise vlib.Infra('vacuity guard: no matched cgroup vanished in the middle of a tick in this run')
    return {'cgroups_vanished_mid_tick': n}


def run(pid, tier, tmp, replay):
    n = 600 if tier == 'quick' else 12000
    vlib.trace_family_check(pid, tier, tmp, replay, variant='plain', driver='senpai_driver', driver_args=[vlib.seed(), n],
                            trace_module='Senpai_Trace.tla', trace_cfg='Senpai_Trace.cfg',
                            mc_module='MC_Senpai.tla', mc_cfg='MC_C18_%s.cfg' % tier, assume=ASSUME,
                            sample_re=r'\{"e":"(CtlWrite|Swp|CtlWriteFailed)"', wit=('MC_wit_senpai.cfg', WIT), extra_cov=lambda lines: _cov(lines, replay))
