"""C18: Senpai.  Stage S: TLC on MC_Senpai (declarative bounds / guards of the statement vs the operational
design, with witnesses).  Stage B: every write(2) of the real senpai plugin on control files and on
swappiness is validated against Senpai_Trace."""
import vlib

ASSUME = ['sizes are multiples of 4 KiB; the specification works in pages and leaves the control law\'s multiplicative factor free (only its direction and the max_probe / max_backoff caps are fixed)',
          'matched cgroups are top-level, so effective swap free / max / utilisation are computed by the driver with the C15 formulas',
          'control-file writes may fail (EAGAIN) by scenario: the cgroup is then dropped from tracking; memory_high_timeout_ms (threaded write) is not exercised']
WIT = ['Probed', 'BackedOff', 'FloorAboveCeiling', 'Reclaimed', 'PokedAndReset', 'SwappinessLowered', 'RecreatedIsTrackedAfresh']


def run(pid, tier, tmp, replay):
    n = 600 if tier == 'quick' else 12000
    vlib.trace_family_check(pid, tier, tmp, replay, variant='plain', driver='senpai_driver', driver_args=[vlib.seed(), n],
                            trace_module='Senpai_Trace.tla', trace_cfg='Senpai_Trace.cfg',
                            mc_module='MC_Senpai.tla', mc_cfg='MC_C18_%s.cfg' % tier, assume=ASSUME,
                            sample_re=r'\{"e":"(CtlWrite|Swp|CtlWriteFailed)"', wit=('MC_wit_senpai.cfg', WIT))
